"""C12 - numerical failures inside a trajectory are contained as rejections.

 R1 every solver return is under a convergence test on a residual of the returned iterate
 R2 no fall-through: every other exit raises ConvergenceError
 R3 every may-raise statement of a solver iteration lies in a try converting
    ValueError / mici LinAlgError into ConvergenceError
 R3b every local name read in solvers/integrators/transitions is definitely assigned
    (an UnboundLocalError is a foreign exception that escapes every handler)
 R4 raise taxonomy: integrator/solver/divergence raises are IntegratorError subclasses
 R5 integrator.step / _check_divergence calls outside integrators.py are inside a try that
    catches IntegratorError
 R6 the handler records (ladder covers the three subclasses, keys declared) and contains
    (no accept / selection reachable on the error path)
 R7 NaN energies: exp(min(0, d)) is guarded by isnan(d); h is sanitised before weights
"""

from __future__ import annotations

import ast

from ..cfg import CFG, definitely_assigned, local_names, uses
from ..exctypes import ExcTypes
from ..facts import flag_constants, must_facts
from ..model import Program, call_name, norm, walk_no_nested, dict_store_keys, inline_private_helpers
from ..report import AnalysisError

PROP = "C12"


def solver_functions(program: Program):
    m = program.module("solvers")
    fs = [f for n, f in m.functions.items() if n.startswith("solve_")]
    if len(fs) < 5:
        raise AnalysisError(f"expected >= 5 solver functions in solvers.py, found {len(fs)}")
    # shared pieces extracted into private helpers are analysed in place
    import dataclasses

    return [dataclasses.replace(f, node=inline_private_helpers(f)) for f in fs]


def build_cfg(f, et: ExcTypes) -> CFG:
    return CFG(f.node, catches=lambda h, r: et.catches(h, r, f.module), raised_class=lambda st: et.raised_class(st, f.module))


def _is_pos_write(n) -> bool:
    a = n.ast
    if n.kind != "stmt" or not isinstance(a, (ast.Assign, ast.AugAssign)):
        return False
    tgts = a.targets if isinstance(a, ast.Assign) else [a.target]
    for t in tgts:
        for tt in (t.elts if isinstance(t, ast.Tuple) else [t]):
            if isinstance(tt, ast.Attribute) and tt.attr == "pos":
                return True
            if isinstance(tt, ast.Subscript) and isinstance(tt.value, ast.Attribute) and tt.value.attr == "pos":
                return True
    return False


POS = "@state.pos"


def convergence_facts(f, cfg: CFG):
    """Facts: ('val', v, deps) value of v computed from deps; ('lt', e, tol)."""
    tol_params = {p for p in f.params if p.endswith("_tol") and "diverg" not in p}
    norm_params = {p for p in f.params if p == "norm"} | {"norm"}

    def expr_deps(e: ast.expr, state) -> frozenset:
        # direct dependencies only: the transitive closure is taken where the facts are used, so that a fact
        # does not change identity when an operand's own provenance differs between loop iterations
        deps = set()
        for n in ast.walk(e):
            if isinstance(n, ast.Name) and isinstance(n.ctx, ast.Load):
                deps.add(n.id)
            if isinstance(n, ast.Call) and isinstance(n.func, ast.Attribute) and n.func.attr == "constr":
                deps.add(POS)
            if isinstance(n, ast.Attribute) and n.attr == "pos":
                deps.add(POS)
        return frozenset(deps)

    def is_constr_call(e):
        return isinstance(e, ast.Call) and isinstance(e.func, ast.Attribute) and e.func.attr == "constr" and len(e.args) == 1

    def node_gen(n, state):
        a = n.ast
        out = set()
        if n.kind == "stmt" and isinstance(a, ast.Assign) and len(a.targets) == 1 and isinstance(a.targets[0], ast.Name):
            v = a.targets[0].id
            out.add(("val", v, expr_deps(a.value, state) - {v}))
            # direct constraint value / its norm (the residual itself, not something derived from it)
            if is_constr_call(a.value):
                out.add(("cval", v))
            if isinstance(a.value, ast.Call) and norm(a.value.func) in norm_params and len(a.value.args) == 1:
                arg = a.value.args[0]
                if is_constr_call(arg) or (isinstance(arg, ast.Name) and ("cval", arg.id) in state):
                    out.add(("resid", v))
        return out

    def kill(n, fact):
        defs = set()
        from ..cfg import stmt_defs

        defs = stmt_defs(n)
        if fact[0] == "val":
            if fact[1] in defs or (defs & set(fact[2])):
                return True
            if POS in fact[2] and _is_pos_write(n):
                return True
        if fact[0] == "lt":
            if fact[1] in defs or fact[2] in defs:
                return True
        if fact[0] in ("cval", "resid"):
            if fact[1] in defs or _is_pos_write(n):
                return True
        return False

    def atom(e, pol):
        if isinstance(e, ast.Compare) and len(e.ops) == 1:
            l, op, r = e.left, e.ops[0], e.comparators[0]

            def nm(x):
                # name, or norm(name)
                if isinstance(x, ast.Name):
                    return x.id
                return None

            if pol and isinstance(op, (ast.Lt, ast.LtE)) and nm(r) in tol_params:
                yield ("lt", norm(l), nm(r))
            if pol and isinstance(op, (ast.Gt, ast.GtE)) and nm(l) in tol_params:
                yield ("lt", norm(r), nm(l))
            if not pol and isinstance(op, (ast.Gt, ast.GtE)) and nm(r) in tol_params:
                yield ("lt", norm(l), nm(r))
            if not pol and isinstance(op, (ast.Lt, ast.LtE)) and nm(l) in tol_params:
                yield ("lt", norm(r), nm(l))

    return must_facts(cfg, atom, node_gen, kill), tol_params


def rule_r1_r2(rep, program, et, prop=PROP, only_projection=False, rule_ids=("R1", "R2")):
    r1 = rep.rule(rule_ids[0], "every solver return is dominated by `residual < tolerance` on a residual computed from the returned iterate (killed by later writes)", floor=3 if only_projection else 5)
    r2 = rep.rule(rule_ids[1], "no fall-through: every non-return exit of a solver raises ConvergenceError", floor=3 if only_projection else 5)
    for f in solver_functions(program):
        is_proj = "projection" in f.name
        if only_projection and not is_proj:
            continue
        cfg = build_cfg(f, et)
        IN, tol_params = convergence_facts(f, cfg)
        rets = [n for n in cfg.nodes if n.kind == "stmt" and isinstance(n.ast, ast.Return)]
        if not rets:
            r1.violate(prop, f"{f.name}:no-return", "solver has no return statement", node=f.node, file=f.file)
        for n in rets:
            if n not in IN:
                continue  # unreachable
            st = IN[n]
            direct = {fa[1]: set(fa[2]) for fa in st if fa[0] == "val"}
            vals = {}
            for v0 in direct:
                seen_d, todo = set(), list(direct[v0])
                while todo:
                    d0 = todo.pop()
                    if d0 in seen_d:
                        continue
                    seen_d.add(d0)
                    todo.extend(direct.get(d0, ()))
                vals[v0] = seen_d
            lts = [(fa[1], fa[2]) for fa in st if fa[0] == "lt"]
            retnames = {x.id for x in ast.walk(n.ast) if isinstance(x, ast.Name)}
            ok = False
            why = []
            for e, tol in lts:
                # e is either a name with known deps, or an inline expression
                deps = vals.get(e)
                if deps is None:
                    try:
                        ex = ast.parse(e, mode="eval").body
                    except SyntaxError:
                        continue
                    deps = set()
                    for x in ast.walk(ex):
                        if isinstance(x, ast.Name):
                            deps.add(x.id)
                            deps |= set(vals.get(x.id, ()))
                if is_proj:
                    good = ("resid", e) in st and tol == "constraint_tol"
                else:
                    good = bool(retnames & set(deps))
                why.append(f"{e}<{tol} deps={sorted(deps)}")
                ok = ok or good
            r1.inst({"function": f.name, "return": norm(n.ast), "facts": why})
            if not ok:
                need = "a constraint residual of the current state.pos below constraint_tol" if is_proj else "a residual involving the returned iterate below the convergence tolerance"
                r1.violate(prop, f"{f.name}:return:{norm(n.ast)}", f"return reachable without {need} (facts alive at the return: {why or 'none'}) - an unconverged result can be returned", node=n.ast, file=f.file)
        # R2
        for src, lab in cfg.exit_return.pred:
            if lab == "fall":
                r2.violate(prop, f"{f.name}:fall-through", "the end of the function is reachable without return or raise (returns None instead of raising ConvergenceError)", node=src.ast, file=f.file)
        n_raise = 0
        for src, lab in cfg.exit_raise.pred:
            n_raise += 1
            rc = getattr(src, "raised", None)
            r2.inst({"function": f.name, "raise": norm(src.ast)[:60], "class": rc})
            if rc != "mici.ConvergenceError":
                r2.violate(prop, f"{f.name}:raise:{rc}", f"exit raises {rc or norm(src.ast)[:40]} instead of ConvergenceError", node=src.ast, file=f.file)
        if n_raise == 0:
            r2.violate(prop, f"{f.name}:no-raise", "solver cannot raise ConvergenceError at all", node=f.node, file=f.file)
    return r1, r2


def _handler_converts(tr: ast.Try, f, et: ExcTypes) -> bool:
    need = {"builtins.ValueError", "mici.LinAlgError"}
    covered = set()
    for h in tr.handlers:
        hts = et.handler_types(h, f.module)
        if hts is None:
            continue
        raises = [s for s in ast.walk(h) if isinstance(s, ast.Raise)]
        conv = any(et.raised_class(s, f.module) == "mici.ConvergenceError" for s in raises)
        if not conv:
            continue
        for nd in need:
            if any(et.is_subclass(nd, t) for t in hts):
                covered.add(nd)
    return covered == need


def rule_r3(rep, program, et, prop=PROP, rule="R3", only_projection=False):
    r = rep.rule(rule, "every may-raise statement inside a solver's iteration lies in a try that converts ValueError and mici LinAlgError into ConvergenceError", floor=12 if only_projection else 20)
    for f in solver_functions(program):
        if only_projection and "projection" not in f.name:
            continue
        cfg = build_cfg(f, et)
        # handler bodies are excluded
        hbody = set()
        for t in ast.walk(f.node):
            if isinstance(t, ast.ExceptHandler):
                for s in ast.walk(t):
                    hbody.add(s)
        for n in cfg.nodes:
            if n.kind not in ("stmt", "test") or n.ast in hbody or n.loop_depth < 1:
                continue
            if isinstance(n.ast, (ast.Raise, ast.Return, ast.Break, ast.Continue)):
                continue
            if not any(isinstance(x, ast.Call) or (isinstance(x, ast.BinOp)) for x in ast.walk(n.ast)):
                continue
            ok = any(_handler_converts(tr, f, et) for tr in n.in_try)
            r.inst({"function": f.name, "stmt": norm(n.ast)[:60]})
            if not ok:
                r.violate(prop, f"{f.name}:unguarded:{norm(n.ast)[:50]}", "statement of the solver iteration is not covered by a handler converting ValueError/LinAlgError to ConvergenceError: a foreign exception type escapes the solver", node=n.ast, file=f.file)
    return r


def rule_r9(rep, program, et):
    """Sub-steps outside the iterative solvers (explicit kicks of the implicit integrators, the cotangent
    projection of the constrained integrator) evaluate system methods that build matrix objects from the
    user's Jacobian / metric values; those constructors raise ValueError / mici LinAlgError on non-finite
    input.  Neither is an IntegratorError, so unless the step converts them they escape the transition."""
    r = rep.rule("R9", "every _step runs under a handler converting ValueError / mici LinAlgError into an IntegratorError (sub-steps outside the solvers included)", floor=4)
    k = program.cls("Integrator")
    step = k.methods["step"]

    def converts(tr, f):
        need = {"builtins.ValueError", "mici.LinAlgError"}
        covered = set()
        for h in tr.handlers:
            hts = et.handler_types(h, f.module)
            if hts is None:
                continue
            raises = [s_ for s_ in ast.walk(h) if isinstance(s_, ast.Raise)]
            conv = any((et.raised_class(s_, f.module) or "").startswith("mici.") and et.is_subclass(et.raised_class(s_, f.module), "mici.IntegratorError") for s_ in raises)
            if conv:
                covered |= {nd for nd in need if any(et.is_subclass(nd, t) for t in hts)}
        return covered == need

    def covered_call(f, pred):
        """every call selected by pred in f lies in the body of a converting try"""
        pm = {ch: par for par in ast.walk(f.node) for ch in ast.iter_child_nodes(par)}
        calls = [c for c in ast.walk(f.node) if isinstance(c, ast.Call) and pred(c)]
        res = []
        for c in calls:
            cur, ok = c, False
            while cur in pm:
                par = pm[cur]
                if isinstance(par, ast.Try) and any(cur is x or any(cur is y for y in ast.walk(x)) for x in par.body) and converts(par, f):
                    ok = True
                cur = par
            res.append((c, ok))
        return res

    base = covered_call(step, lambda c: norm(c.func) == "self._step")
    if not base:
        raise AnalysisError("Integrator.step: call of self._step not found")
    base_ok = all(ok for _c, ok in base)
    r.inst({"site": "Integrator.step", "self._step under a converting handler": base_ok})
    for kk in program.subclasses("Integrator", concrete_only=True):
        f = kk.resolve("_step")
        if kk.resolve("step") is not step:
            raise AnalysisError(f"{kk.name} overrides step")
        # sub-steps outside solvers: any call of a system method / private sub-step in the concrete _step
        own = covered_call(f, lambda c: isinstance(c.func, ast.Attribute))
        own_ok = bool(own) and all(ok for _c, ok in own)
        needs = kk.is_subclass_of("ImplicitLeapfrogIntegrator") or kk.is_subclass_of("ImplicitMidpointIntegrator") or kk.is_subclass_of("ConstrainedLeapfrogIntegrator")
        r.inst({"integrator": kk.name, "has sub-steps outside solvers that build matrices": needs, "covered": base_ok or own_ok})
        if needs and not (base_ok or own_ok):
            r.violate(PROP, f"{kk.name}._step:foreign-exception-escapes", f"{kk.name}._step runs sub-steps outside the iterative solvers (explicit kicks / the cotangent projection) that evaluate matrix-valued system methods; a non-finite Jacobian or metric makes their constructors raise ValueError / mici LinAlgError, and neither Integrator.step nor {kk.name}._step converts these into an IntegratorError: the exception escapes the transition and aborts the chain instead of being recorded as a rejection", node=f.node, file=f.file)
    return r


def rule_r3b(rep, program, et):
    r = rep.rule("R3b", "definite assignment: no local name can be read before it is bound on any path (loops over range(...) assumed to run at least once)", floor=40)
    mods = ["solvers", "integrators", "transitions"]
    for mn in mods:
        m = program.module(mn)
        funcs = list(m.functions.values())
        for c in m.classes.values():
            funcs += list(c.methods.values())
        for f in funcs:
            cfg = build_cfg(f, et)
            IN = definitely_assigned(cfg, set(f.params) | ({f.node.args.vararg.arg} if f.node.args.vararg else set()) | ({f.node.args.kwarg.arg} if f.node.args.kwarg else set()))
            loc = local_names(f.node)
            r.inst({"function": f.qualname, "nodes": len(cfg.nodes)}, exercised=len(cfg.nodes) > 4)
            seen = set()
            for n in cfg.stmts():
                if n not in IN:
                    continue
                for u in uses(n):
                    if u.id in loc and u.id not in IN[n] and u.id not in seen:
                        seen.add(u.id)
                        r.violate(PROP, f"{f.qualname}:unbound:{u.id}", f"`{u.id}` can be read before assignment (first such read: `{norm(n.ast)[:60]}`): the resulting UnboundLocalError is not a ValueError/LinAlgError/IntegratorError and escapes every handler", node=u, file=f.file)
    return r


def _all_funcs(m):
    fs = list(m.functions.values())
    for c in m.classes.values():
        fs += list(c.methods.values())
    return fs


def rule_r4(rep, program, et):
    r = rep.rule("R4", "raise taxonomy: raises in integrators.py / solvers.py (outside constructors) and in _check_divergence are IntegratorError subclasses", floor=20)
    allow = {("Integrator.step", "mici.AdaptationError")}  # configuration error: step_size is None
    for mn in ("solvers", "integrators"):
        m = program.module(mn)
        for f in _all_funcs(m):
            if f.name == "__init__":
                continue
            for st in ast.walk(f.node):
                if isinstance(st, ast.Raise) and st.exc is not None:
                    rc = et.raised_class(st, f.module)
                    r.inst({"function": f.qualname, "raises": rc})
                    if rc is None:
                        raise AnalysisError(f"cannot resolve raised class in {f.qualname}: {norm(st)[:60]}")
                    if (f.qualname, rc) in allow:
                        continue
                    if not et.is_subclass(rc, "mici.IntegratorError"):
                        r.violate(PROP, f"{f.qualname}:raises:{rc}", f"raises {rc}, which is not a subclass of mici.errors.IntegratorError: transitions do not catch it and the chain aborts", node=st, file=f.file)
    for c in program.subclasses("DynamicIntegrationTransition"):
        f = c.methods.get("_check_divergence")
        if f is None or f.is_abstract:
            continue
        for st in ast.walk(f.node):
            if isinstance(st, ast.Raise) and st.exc is not None:
                rc = et.raised_class(st, f.module)
                r.inst({"function": f.qualname, "raises": rc})
                if rc is None or not et.is_subclass(rc, "mici.IntegratorError"):
                    r.violate(PROP, f"{f.qualname}:raises:{rc}", f"divergence is signalled with {rc}, not an IntegratorError subclass", node=st, file=f.file)
    return r


def _enclosing_tries(func: ast.FunctionDef):
    """Map each node in func to the list of ast.Try whose *body* contains it."""
    out = {}

    def visit(node, tries):
        for ch in ast.iter_child_nodes(node):
            if isinstance(ch, (ast.FunctionDef, ast.Lambda, ast.ClassDef)):
                continue
            if isinstance(node, ast.Try) and ch in node.body:
                out[ch] = tries + [node]
                visit(ch, tries + [node])
            else:
                out[ch] = tries
                visit(ch, tries)

    visit(func, [])
    return out


def rule_r5(rep, program, et):
    r = rep.rule("R5", "every integrator.step(...) call outside integrators.py and every _check_divergence call lies in a try that catches IntegratorError", floor=4)
    for m in program.modules.values():
        if m.name == "mici.integrators":
            continue
        for f in _all_funcs(m):
            enc = _enclosing_tries(f.node)
            for n in walk_no_nested(f.node):
                if not isinstance(n, ast.Call):
                    continue
                cn = call_name(n)
                is_step = cn.endswith("integrator.step")
                is_div = cn.endswith("._check_divergence")
                if not (is_step or is_div):
                    continue
                r.inst({"function": f.qualname, "call": cn})
                ok = False
                for tr in enc.get(n, []):
                    for h in tr.handlers:
                        hts = et.handler_types(h, f.module)
                        if hts and any(et.is_subclass("mici.IntegratorError", t) for t in hts):
                            ok = True
                if not ok:
                    r.violate(PROP, f"{f.qualname}:{cn}:unguarded", f"{cn}(...) is not inside a try that catches IntegratorError: a solver failure or divergence aborts the chain instead of rejecting", node=n, file=f.file)
    return r


def rule_r6(rep, program, et):
    r = rep.rule("R6", "error handlers record the failure (ladder covers the three IntegratorError subclasses, keys declared) and contain it (no acceptance/selection reachable on the error path)", floor=8)
    tm = program.module("transitions")
    pie = program.func("transitions", "_process_integrator_error")
    # ladder
    covered = {}
    for n in ast.walk(pie.node):
        if isinstance(n, ast.If) and isinstance(n.test, ast.Call) and norm(n.test.func) == "isinstance":
            cls = et.canon(norm(n.test.args[1]), pie.module)
            keys = [norm(t.slice) for s in n.body if isinstance(s, ast.Assign) for t in s.targets if isinstance(t, ast.Subscript)]
            vals = [norm(s.value) for s in n.body if isinstance(s, ast.Assign)]
            covered[cls] = (keys, vals)
    for cls in ("mici.HamiltonianDivergenceError", "mici.NonReversibleStepError", "mici.ConvergenceError"):
        r.inst({"ladder": cls, "sets": covered.get(cls)})
        if cls not in covered or not covered[cls][0] or covered[cls][1] != ["True"]:
            r.violate(PROP, f"_process_integrator_error:{cls}", f"{cls} is not recorded as a True flag in the transition statistics", node=pie.node, file=pie.file)
    expected_key = {"mici.HamiltonianDivergenceError": "'diverging'", "mici.NonReversibleStepError": "'non_reversible_step'", "mici.ConvergenceError": "'convergence_error'"}
    for cls, want in expected_key.items():
        if cls in covered and covered[cls][0] and covered[cls][0] != [want]:
            r.violate(PROP, f"_process_integrator_error:{cls}:key={covered[cls][0]}", f"{cls} is recorded under {covered[cls][0]} instead of {want}: the statistics report the wrong failure cause", node=pie.node, file=pie.file)
    # the ladder must test subclasses before superclasses (else shadowed)
    order = list(covered)
    for i, a in enumerate(order):
        for b in order[i + 1:]:
            if a and b and et.is_subclass(b, a) and a != b:
                r.violate(PROP, f"_process_integrator_error:{b}:shadowed-by:{a}", f"isinstance test for {a} precedes and shadows the test for its subclass {b}", node=pie.node, file=pie.file)
    # declared keys
    decl_base = set()
    for c in program.subclasses("IntegrationTransition"):
        f = c.methods.get("__init__")
        if f is None:
            continue
        decl_base |= dict_store_keys(f.node, "self._statistic_types")
    for cls, (keys, _v) in covered.items():
        for k in keys:
            kk = ast.literal_eval(k)
            r.inst({"flag key": kk, "declared": kk in decl_base})
            if kk not in decl_base:
                r.violate(PROP, f"_process_integrator_error:key:{kk}", f"flag '{kk}' set for {cls} is not a declared statistic of any integration transition", node=pie.node, file=pie.file)
    # containment in _sample_n_step: accept assignment unreachable from the handler
    f = program.method("MetropolisIntegrationTransition", "_sample_n_step")
    cfg = build_cfg(f, et)
    _env, pruned = flag_constants(cfg)
    handlers = [n for n in cfg.nodes if n.kind == "handler" and any(et.is_subclass("mici.IntegratorError", t) for t in (et.handler_types(n.ast, f.module) or []))]
    if not handlers:
        r.notes.append("_sample_n_step has no IntegratorError handler (reported by R5)")
    # path-sensitive: propagate constants *from the handler* (flags set there)
    for h in handlers:
        calls = [norm(c.func) for s in h.ast.body for c in ast.walk(s) if isinstance(c, ast.Call)]
        r.inst({"handler": "_sample_n_step", "calls": calls})
        if "_process_integrator_error" not in calls:
            r.violate(PROP, "MetropolisIntegrationTransition._sample_n_step:handler:no-record", "the IntegratorError handler does not call _process_integrator_error: the failure is not recorded in the statistics", node=h.ast, file=f.file)
        reach = _reach_with_flags(cfg, h)
        accepts = [n for n in reach if n.kind == "stmt" and isinstance(n.ast, ast.Assign) and norm(n.ast.targets[0]) == "state" and isinstance(n.ast.value, ast.Name) and n.ast.value.id != "state"]
        r.inst({"handler": "_sample_n_step", "accept assignments reachable on error path": [norm(a.ast) for a in accepts]})
        for a in accepts:
            r.violate(PROP, f"MetropolisIntegrationTransition._sample_n_step:accept-on-error:{norm(a.ast)}", "the proposal can be accepted on the path through the IntegratorError handler (a partially integrated / failed trajectory end point becomes the chain state)", node=a.ast, file=f.file)
    # _build_tree: handler returns (True, None, None); callers test terminate before using
    bt = program.method("DynamicIntegrationTransition", "_build_tree")
    cfg = build_cfg(bt, et)
    for h in [n for n in cfg.nodes if n.kind == "handler"]:
        calls = [norm(c.func) for s in h.ast.body for c in ast.walk(s) if isinstance(c, ast.Call)]
        r.inst({"handler": "_build_tree", "calls": calls})
        if "_process_integrator_error" not in calls:
            r.violate(PROP, "DynamicIntegrationTransition._build_tree:handler:no-record", "the IntegratorError handler does not call _process_integrator_error", node=h.ast, file=bt.file)
        reach = _reach_with_flags(cfg, h)
        for n in reach:
            if n.kind == "stmt" and isinstance(n.ast, ast.Return):
                v = n.ast.value
                env = getattr(n, "_flag_env", {})
                elts = v.elts if isinstance(v, ast.Tuple) else [v]
                vals = [env.get(e.id, "?") if isinstance(e, ast.Name) else (e.value if isinstance(e, ast.Constant) else "?") for e in elts]
                r.inst({"_build_tree error-path return": vals})
                if len(vals) != 3 or vals[0] is not True or vals[1] is not None or vals[2] is not None:
                    r.violate(PROP, f"DynamicIntegrationTransition._build_tree:error-return:{vals}", f"on the error path _build_tree returns {vals} instead of (True, None, None): a state of the failed sub-tree can be selected", node=n.ast, file=bt.file)
    # uses of the tree/proposal returned by _build_tree are dominated by `not terminate`
    for fn in (bt, program.method("DynamicIntegrationTransition", "sample")):
        cfg = build_cfg(fn, et)

        def atom(e, pol):
            if isinstance(e, ast.Name) and not pol:
                yield ("false", e.id)
            # `X is None` known false / `X is not None` known true: X is a real object
            if isinstance(e, ast.Compare) and len(e.ops) == 1 and isinstance(e.left, ast.Name) and isinstance(e.comparators[0], ast.Constant) and e.comparators[0].value is None:
                if (isinstance(e.ops[0], ast.Is) and not pol) or (isinstance(e.ops[0], ast.IsNot) and pol):
                    yield ("notnone", e.left.id)

        def kill(n, fact):
            from ..cfg import stmt_defs

            return fact[1] in stmt_defs(n)

        IN = must_facts(cfg, atom, None, kill)
        for n in cfg.nodes:
            a = n.ast
            if n.kind == "stmt" and isinstance(a, ast.Assign) and isinstance(a.value, ast.Call) and call_name(a.value).endswith("_build_tree") and isinstance(a.targets[0], ast.Tuple):
                names = [norm(e) for e in a.targets[0].elts]
                flag, guarded = names[0], set(names[1:])
                # every later use of guarded names must have ('false', flag)
                for m2 in cfg.reachable(n):
                    if m2 is n or m2 not in IN:
                        continue
                    from ..cfg import stmt_defs

                    used = {u.id for u in uses(m2)} & guarded
                    # testing a value against None is not a use of the object
                    none_tests = {c.left.id for c in ast.walk(m2.ast) if isinstance(c, ast.Compare) and len(c.ops) == 1 and isinstance(c.ops[0], (ast.Is, ast.IsNot)) and isinstance(c.left, ast.Name) and isinstance(c.comparators[0], ast.Constant) and c.comparators[0].value is None} if m2.ast is not None else set()
                    n_loads = {g: sum(1 for u in uses(m2) if u.id == g) for g in used}
                    n_tests = {g: sum(1 for c in ast.walk(m2.ast) if isinstance(c, ast.Compare) and isinstance(c.left, ast.Name) and c.left.id == g and len(c.ops) == 1 and isinstance(c.ops[0], (ast.Is, ast.IsNot))) for g in used}
                    used = {g for g in used if not (g in none_tests and n_loads[g] == n_tests[g])}
                    if not used:
                        continue
                    # a use inside `return terminate, None, None` style statements has no guarded names
                    # a failed build returns (True, None, None) - checked above - so a value known not to be
                    # None was not produced by a failed build either
                    ok = ("false", flag) in IN[m2] or any(("notnone", g) in IN[m2] for g in guarded)
                    r.inst({"function": fn.qualname, "use": norm(m2.ast)[:50], "guarded": ok})
                    if not ok:
                        r.violate(PROP, f"{fn.qualname}:unguarded-use:{sorted(used)[0]}:{norm(m2.ast)[:40]}", f"{sorted(used)} (result of a possibly failed _build_tree) is used without a dominating `not {flag}` test", node=m2.ast, file=fn.file)
    return r


def _reach_with_flags(cfg: CFG, start):
    """Nodes reachable from ``start`` when boolean/None flags assigned along the way are
    propagated and infeasible branch edges pruned."""
    from ..facts import TOP, const_of
    from ..cfg import stmt_defs

    seen = {}
    todo = [(start, ())]
    out = set()
    n_steps = 0
    while todo:
        n_steps += 1
        if n_steps > 20000:
            raise AnalysisError("flag propagation did not terminate")
        n, envt = todo.pop()
        key = (n, envt)
        if key in seen:
            continue
        seen[key] = True
        out.add(n)
        env = dict(envt)
        n._flag_env = env
        a = n.ast
        if n.kind == "stmt" and isinstance(a, ast.Assign):
            for t in a.targets:
                if isinstance(t, ast.Name):
                    env[t.id] = const_of(a.value, env)
                elif isinstance(t, ast.Tuple) and isinstance(a.value, ast.Tuple) and len(t.elts) == len(a.value.elts):
                    for tt, vv in zip(t.elts, a.value.elts):
                        if isinstance(tt, ast.Name):
                            env[tt.id] = const_of(vv, env)
                else:
                    for nm in stmt_defs(n):
                        env.pop(nm, None)
        else:
            for nm in stmt_defs(n):
                env.pop(nm, None)
        env = {k: v for k, v in env.items() if v is not TOP}
        envt2 = tuple(sorted(env.items(), key=lambda kv: kv[0]))
        for s, lab in n.succ:
            if n.kind == "test" and lab in ("true", "false"):
                v = const_of(n.ast, env)
                if v is not TOP and bool(v) != (lab == "true"):
                    continue
            if lab == "exc":
                continue
            todo.append((s, envt2))
    return out


def rule_r7(rep, program):
    r = rep.rule("R7", "NaN energies: every exp(min(0, d)) is the non-NaN arm of an isnan(d) guard; h is sanitised (NaN -> inf) before it is given weight", floor=3)
    tm = program.module("transitions")
    for f in _all_funcs(tm):
        pm = {}
        for n in ast.walk(f.node):
            for c in ast.iter_child_nodes(n):
                pm[c] = n
        for n in ast.walk(f.node):
            if isinstance(n, ast.Call) and call_name(n) in ("np.exp", "exp", "numpy.exp") and n.args and isinstance(n.args[0], ast.Call) and norm(n.args[0].func) == "min":
                margs = n.args[0].args
                d = [a for a in margs if not (isinstance(a, ast.Constant))]
                if len(d) != 1:
                    continue
                dtxt = norm(d[0])
                guarded = False
                cur = n
                while cur in pm:
                    par = pm[cur]
                    if isinstance(par, ast.IfExp):
                        t = norm(par.test)
                        if t in (f"np.isnan({dtxt})", f"isnan({dtxt})", f"math.isnan({dtxt})") and cur is par.orelse:
                            guarded = True
                        if t in (f"not np.isnan({dtxt})", f"not isnan({dtxt})") and cur is par.body:
                            guarded = True
                    if isinstance(par, ast.If):
                        t = norm(par.test)
                        if t in (f"np.isnan({dtxt})", f"isnan({dtxt})") and any(cur is s or cur in ast.walk(s) for s in par.orelse):
                            guarded = True
                        if t in (f"not np.isnan({dtxt})",) and any(cur in ast.walk(s) for s in par.body):
                            guarded = True
                    cur = par
                r.inst({"function": f.qualname, "expr": norm(n), "isnan_guard": guarded})
                if not guarded:
                    r.violate(PROP, f"{f.qualname}:unguarded-exp-min:{dtxt}", f"exp(min(0, {dtxt})) is evaluated without an isnan({dtxt}) guard: min(0, nan) is 0, so a NaN energy gives acceptance probability 1", node=n, file=f.file)
    # h sanitisation in _build_tree
    bt = program.method("DynamicIntegrationTransition", "_build_tree")
    body_txt = [norm(s) for s in ast.walk(bt.node) if isinstance(s, ast.Assign)]
    hcalls = [s for s in ast.walk(bt.node) if isinstance(s, ast.Assign) and isinstance(s.value, ast.Call) and call_name(s.value).endswith("system.h")]
    def _nan_to_inf(st, v):
        """st maps a NaN value of the local v to +inf and leaves other values alone"""
        isnan = (f"np.isnan({v})", f"isnan({v})", f"math.isnan({v})", f"{v} != {v}")
        inf = ("np.inf", "inf", "math.inf", "float('inf')", "float(\"inf\")")
        if isinstance(st, ast.Assign) and len(st.targets) == 1 and norm(st.targets[0]) == v:
            e = st.value
            if isinstance(e, ast.IfExp):
                if norm(e.test) in isnan and norm(e.body) in inf and norm(e.orelse) == v:
                    return True
                if norm(e.test) in tuple(f"not {t}" for t in isnan) and norm(e.orelse) in inf and norm(e.body) == v:
                    return True
            if isinstance(e, ast.Call) and call_name(e) == "np.where" and len(e.args) == 3 and norm(e.args[0]) in isnan and norm(e.args[1]) in inf and norm(e.args[2]) == v:
                return True
            if isinstance(e, ast.Call) and call_name(e) == "np.nan_to_num" and e.args and norm(e.args[0]) == v and any(k.arg == "nan" and norm(k.value) in inf for k in e.keywords) and not any(k.arg in ("posinf", "neginf") for k in e.keywords):
                return True
        if isinstance(st, ast.If) and not st.orelse and norm(st.test) in isnan and len(st.body) == 1 and isinstance(st.body[0], ast.Assign) and norm(st.body[0].targets[0]) == v and norm(st.body[0].value) in inf:
            return True
        return False

    from ..model import _blocks

    for s in hcalls:
        v = norm(s.targets[0])
        san = False
        for block in _blocks(bt.node):
            if not any(x is s for x in block):
                continue
            after = block[[i for i, x in enumerate(block) if x is s][0] + 1 :]
            for x in after:
                if _nan_to_inf(x, v):
                    san = True
                    break
                if any(isinstance(n, ast.Name) and n.id == v for n in ast.walk(x)):
                    break  # the value is used (or re-bound) before being sanitised
        r.inst({"function": bt.qualname, "energy var": v, "sanitised": san})
        if not san:
            r.violate(PROP, f"{bt.qualname}:h-not-sanitised:{v}", f"the energy `{v}` of a new tree node is not mapped NaN -> inf before being weighted / divergence-checked: a NaN energy yields NaN weights and can be selected", node=s, file=bt.file)
    return r


def rule_r10(rep, program):
    """The solvers and the reversibility checks detect a non-finite iterate through its norm: `error > divergence_tol or
    isnan(error)`.  That works only if the norm propagates NaN from any coordinate.  NumPy reductions (`.max()`, `.sum()`,
    `np.linalg.norm`) do; Python's built-in `max` / `min` compare pairwise and keep a NaN only if it is the first element,
    and the `nan*` / `fmax` / `fmin` reductions skip NaN by design."""
    import ast

    from ..model import call_name, norm

    r = rep.rule("R10", "the norms used for convergence, divergence and reversibility tests propagate NaN from every coordinate (NumPy reductions, not built-in max / min or NaN-skipping reductions)", floor=2)
    norms = []
    for mod in ("solvers", "integrators"):
        for f in program.module_functions(mod) if hasattr(program, "module_functions") else []:
            if f.name.endswith("_norm"):
                norms.append(f)
    if not norms:
        for nm in ("euclidean_norm", "maximum_norm"):
            try:
                norms.append(program.func("solvers", nm))
            except Exception:  # noqa: BLE001
                pass
    # any other function of solvers.py used as the default of a `norm` parameter
    try:
        smod = next(mm for n_, mm in program.modules.items() if n_.split(".")[-1] == "solvers")
        for f in smod.functions.values():
            if f.name.endswith("_norm") and f not in norms:
                norms.append(f)
    except StopIteration:
        pass
    nan_skipping = {"np.nanmax", "np.nanmin", "np.nansum", "np.nanmean", "np.fmax", "np.fmin", "np.nanmedian", "np.nanprod", "np.nan_to_num"}
    for f in norms:
        rets = [n for n in ast.walk(f.node) if isinstance(n, ast.Return) and n.value is not None]
        r.inst({"norm": f.qualname, "returns": [norm(x.value)[:60] for x in rets]})
        for n in ast.walk(f.node):
            if not isinstance(n, ast.Call):
                continue
            cn = call_name(n)
            if cn in ("max", "min", "sorted") and n.args and not (len(n.args) >= 2 and cn != "sorted"):
                r.violate(PROP, f"{f.qualname}:builtin-{cn}", f"{f.qualname} reduces with Python's built-in `{cn}` (`{norm(n)[:50]}`): comparisons with NaN are false, so a NaN in any coordinate but the first is skipped and a non-finite iterate passes the solvers' `isnan(error)` / divergence tests as converged", node=n, file=f.file)
            elif cn in ("max", "min") and len(n.args) >= 2:
                r.violate(PROP, f"{f.qualname}:builtin-{cn}", f"{f.qualname} combines values with Python's built-in `{cn}` (`{norm(n)[:50]}`), which drops a NaN operand depending on its position", node=n, file=f.file)
            elif cn in nan_skipping or (isinstance(n.func, ast.Attribute) and n.func.attr in ("nanmax", "nanmin", "nansum")):
                r.violate(PROP, f"{f.qualname}:{cn}", f"{f.qualname} uses the NaN-skipping reduction `{cn}`: a non-finite iterate is reported with a finite norm", node=n, file=f.file)
    if len(norms) < 2:
        raise AnalysisError("norm helpers of solvers.py not found")
    return r


def run(rep, program: Program, tier: str) -> None:
    rep.explanation = (
        "Exit- and exception-discipline of the five solvers (CFG must-facts for convergence, "
        "typed raise/handler analysis, definite assignment), raise taxonomy of integrators and "
        "solvers, guarded step/divergence call sites in transitions and adapters, path-sensitive "
        "containment on the handler paths of the two transition kernels, NaN-energy guards."
    )
    rep.assumptions = [
        "loops over range(max_iters) run at least once (max_iters >= 1)",
        "numpy.linalg.LinAlgError is a subclass of ValueError (NumPy fact)",
        "finiteness of values is not decided",
    ]
    et = ExcTypes(program)
    rep.isolate(rule_r1_r2, rep, program, et)
    rep.isolate(rule_r3, rep, program, et)
    rep.isolate(rule_r3b, rep, program, et)
    rep.isolate(rule_r4, rep, program, et)
    rep.isolate(rule_r5, rep, program, et)
    rep.isolate(rule_r6, rep, program, et)
    rep.isolate(rule_r7, rep, program)
    rep.isolate(rule_r9, rep, program, et)
    rep.isolate(rule_r10, rep, program)
    # a failed reversibility check can only be contained and recorded if the check is made: every implicit /
    # retraction sub-step is covered by a complete check (shared with C02-R4)
    from . import c02

    def _r8():
        runs = list(c02.integrator_runs(program, tier))
        return c02.rule_r4(rep, program, runs, prop=PROP, rule="R8")

    rep.isolate(_r8)
    from . import transim

    rep.isolate(transim.rule, rep, program, PROP, "R11")
