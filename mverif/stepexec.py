"""Abstract execution of integrator ``_step`` methods (no mici code is run).

The executor walks the AST of the resolved ``_step`` of a concrete integrator class with a
symbolic state object 'S' and symbolic time step ``t`` and produces a nested list of events:
flows, explicit/implicit variable updates with exact rational time coefficients, copies,
projections, retractions, reversibility checks and loops with symbolic trip count.
"""

from __future__ import annotations

import ast
from dataclasses import dataclass, field
from fractions import Fraction

from .model import ClassInfo, FuncInfo, Program, call_name, is_self_attr, norm
from .poly import Rat, eval_expr
from .report import AnalysisError

MOM_DERIVS = {"dh1_dpos": ("H1",), "dh2_dpos": ("H2mom",), "dh_dpos": ("H1", "H2mom")}
POS_DERIVS = {"dh2_dmom": ("H2pos",), "dh_dmom": ("H2pos",)}


@dataclass
class Obj:
    """Abstract chain-state object."""

    id: str
    origin: str | None = None  # id of the object it was copied from


NONE = "<None>"  # binding of a parameter that is None at this (inlined) call


@dataclass
class Saved:
    """A value of obj.var captured in a local (``copy`` says whether it was copied)."""

    obj: str
    var: str
    copied: bool


@dataclass
class Event:
    kind: str  # flow | update | project | retract | loop | copy | norm | check | preeval
    obj: str = ""
    prim: str = ""  # h1_flow / h2_flow / expl / impl
    vars: tuple = ()
    derivs: tuple = ()
    coeffs: tuple = ()  # Rat per var: var' = var + coeff * deriv
    coeff: Rat | None = None  # flows: time
    node: ast.AST | None = None
    func: str = ""
    body: list = field(default_factory=list)
    count: Rat | None = None
    info: dict = field(default_factory=dict)
    block: int = 0  # id of the statement list (body) the event's statement belongs to
    stack: tuple = ()  # activation stack ((function, activation id), ...) the event was produced in

    def brief(self):
        if self.kind == "flow":
            return f"{self.prim}[{self.obj}]({self.coeff})"
        if self.kind == "update":
            return f"{self.prim}[{self.obj}](" + ", ".join(f"{v}+=({c})*{d}" for v, c, d in zip(self.vars, self.coeffs, self.derivs)) + ")"
        if self.kind == "loop":
            return f"loop x{self.count} [" + ", ".join(e.brief() for e in self.body) + "]"
        if self.kind == "copy":
            return f"copy {self.info.get('src')}->{self.obj}"
        return f"{self.kind}[{self.obj}]"


class ListEval:
    """Evaluator for the small list programs in SymmetricCompositionIntegrator.__init__
    (ints are Python ints, scalars are Rat, lists are Python lists)."""

    def __init__(self, env):
        self.env = dict(env)

    def ev(self, e):
        if isinstance(e, ast.Constant):
            if isinstance(e.value, bool) or isinstance(e.value, int):
                return e.value
            if isinstance(e.value, float):
                return Rat.const(Fraction(repr(e.value)))
            if e.value is None:
                return None
        if isinstance(e, ast.Name):
            if e.id in self.env:
                return self.env[e.id]
            raise AnalysisError(f"list program: unknown name {e.id}")
        if isinstance(e, ast.Attribute):
            return ("attr", norm(e))
        if isinstance(e, ast.Tuple) or isinstance(e, ast.List):
            return [self.ev(x) for x in e.elts]
        if isinstance(e, ast.IfExp):
            t = self.ev(e.test)
            if not isinstance(t, bool):
                raise AnalysisError("list program: non-boolean condition")
            return self.ev(e.body if t else e.orelse)
        if isinstance(e, ast.UnaryOp) and isinstance(e.op, ast.USub):
            return -self.ev(e.operand)
        if isinstance(e, ast.UnaryOp) and isinstance(e.op, ast.Not):
            t = self.ev(e.operand)
            if not isinstance(t, bool):
                raise AnalysisError("list program: non-boolean condition")
            return not t
        if isinstance(e, ast.Compare) and len(e.ops) == 1:
            a, b = self.ev(e.left), self.ev(e.comparators[0])
            if isinstance(a, int) and isinstance(b, int):
                import operator

                table = {ast.Eq: operator.eq, ast.NotEq: operator.ne, ast.Lt: operator.lt, ast.LtE: operator.le, ast.Gt: operator.gt, ast.GtE: operator.ge}
                if type(e.ops[0]) in table:
                    return table[type(e.ops[0])](a, b)
            raise AnalysisError(f"list program: unsupported comparison {norm(e)[:60]}")
        if isinstance(e, ast.BinOp):
            a, b = self.ev(e.left), self.ev(e.right)
            op = e.op
            if isinstance(a, list) or isinstance(b, list):
                if isinstance(op, ast.Add) and isinstance(a, list) and isinstance(b, list):
                    return a + b
                if isinstance(op, ast.Mult) and isinstance(a, list) and isinstance(b, int):
                    return a * b
                if isinstance(op, ast.Mult) and isinstance(b, list) and isinstance(a, int):
                    return b * a
                raise AnalysisError(f"list program: unsupported list op {norm(e)}")
            if isinstance(a, int) and isinstance(b, int) and not isinstance(a, bool):
                if isinstance(op, ast.Add):
                    return a + b
                if isinstance(op, ast.Sub):
                    return a - b
                if isinstance(op, ast.Mult):
                    return a * b
                if isinstance(op, ast.Mod):
                    return a % b
                if isinstance(op, ast.FloorDiv):
                    return a // b
                if isinstance(op, ast.Pow) and b >= 0:
                    return a ** b
            ra = a if isinstance(a, Rat) else Rat.const(a)
            rb = b if isinstance(b, Rat) else Rat.const(b)
            if isinstance(op, ast.Add):
                return ra + rb
            if isinstance(op, ast.Sub):
                return ra - rb
            if isinstance(op, ast.Mult):
                return ra * rb
            if isinstance(op, ast.Div):
                return ra / rb
            if isinstance(op, ast.Pow):
                return ra ** rb
            raise AnalysisError(f"list program: unsupported op {norm(e)}")
        if isinstance(e, ast.Call):
            fn = norm(e.func)
            args = [self.ev(a) for a in e.args]
            if fn == "len":
                return len(args[0])
            if fn in ("list", "tuple"):
                return list(args[0])
            if fn == "sum":
                tot = Rat.const(0)
                for x in args[0]:
                    tot = tot + (x if isinstance(x, Rat) else Rat.const(x))
                return tot
            if fn == "reversed":
                return list(reversed(args[0]))
            raise AnalysisError(f"list program: unsupported call {fn}")
        if isinstance(e, ast.Subscript):
            v = self.ev(e.value)
            s = e.slice
            if isinstance(s, ast.Slice):
                lo = self.ev(s.lower) if s.lower is not None else None
                hi = self.ev(s.upper) if s.upper is not None else None
                st = self.ev(s.step) if s.step is not None else None
                return v[lo:hi:st]
            return v[self.ev(s)]
        raise AnalysisError(f"list program: unsupported expression {norm(e)[:60]}")

    def run(self, body):
        for st in body:
            if isinstance(st, ast.Expr) and isinstance(st.value, ast.Constant):
                continue
            if isinstance(st, ast.Expr) and isinstance(st.value, ast.Call):
                c = st.value
                if isinstance(c.func, ast.Attribute) and c.func.attr == "append" and isinstance(c.func.value, ast.Name):
                    self.env[c.func.value.id].append(self.ev(c.args[0]))
                    continue
                if isinstance(c.func, ast.Attribute) and c.func.attr in ("reverse", "extend", "insert") and isinstance(c.func.value, ast.Name) and isinstance(self.env.get(c.func.value.id), list):
                    getattr(self.env[c.func.value.id], c.func.attr)(*[self.ev(a) for a in c.args])
                    continue
                if call_name(c) == "super().__init__":
                    continue
                raise AnalysisError(f"list program: unsupported statement {norm(st)[:60]}")
            if isinstance(st, ast.If):
                t = self.ev(st.test)
                if not isinstance(t, bool):
                    raise AnalysisError("list program: non-boolean condition")
                self.run(st.body if t else st.orelse)
                continue
            if isinstance(st, ast.AugAssign) and isinstance(st.target, ast.Name) and isinstance(st.op, (ast.Add, ast.Mult)) and isinstance(self.env.get(st.target.id), list):
                v = self.ev(st.value)
                if isinstance(st.op, ast.Add):
                    self.env[st.target.id].extend(v)  # in place, like list.__iadd__
                else:
                    self.env[st.target.id][:] = self.env[st.target.id] * v
                continue
            if isinstance(st, ast.Assign) and len(st.targets) == 1:
                t = st.targets[0]
                v = self.ev(st.value)
                if isinstance(t, ast.Name):
                    self.env[t.id] = v
                    continue
                if isinstance(t, (ast.Tuple, ast.List)) and isinstance(v, list) and len(v) == len(t.elts) and all(isinstance(x, ast.Name) for x in t.elts):
                    for x, xv in zip(t.elts, v):
                        self.env[x.id] = xv
                    continue
                if is_self_attr(t):
                    self.env[f"self.{t.attr}"] = v
                    continue
            raise AnalysisError(f"list program: unsupported statement {norm(st)[:60]}")
        return self.env


def composition_lists(program: Program, free, initial_h1: bool):
    """Evaluate SymmetricCompositionIntegrator.__init__ for given free coefficients."""
    f = program.method("SymmetricCompositionIntegrator", "__init__")
    env = {"free_coefficients": list(free), "initial_h1_flow_step": initial_h1, "system": ("attr", "system"), "step_size": None}
    le = ListEval(env)
    out = le.run(f.body_without_docstring())
    if "self.coefficients" not in out or "self.flows" not in out:
        raise AnalysisError("SymmetricCompositionIntegrator.__init__: coefficients/flows not assigned")
    flows = []
    for x in out["self.flows"]:
        if isinstance(x, tuple) and x[0] == "attr" and x[1].endswith(("h1_flow", "h2_flow")):
            flows.append(x[1].split(".")[-1])
        else:
            raise AnalysisError(f"unexpected flow list element {x!r}")
    return out["self.coefficients"], flows


def bcss_arguments(program: Program, k: ClassInfo):
    """(free coefficients as Rat, initial_h1_flow_step) passed by a BCSS subclass to the base
    constructor."""
    f = k.methods.get("__init__")
    if f is None:
        raise AnalysisError(f"{k.name}.__init__ not found")
    env = {}
    seqs = {}  # locals bound to a tuple / list literal (e.g. a named coefficient tuple)
    call = None
    for st in f.body_without_docstring():
        if isinstance(st, ast.Assign) and len(st.targets) == 1 and isinstance(st.targets[0], ast.Name):
            if isinstance(st.value, (ast.Tuple, ast.List)):
                seqs[st.targets[0].id] = st.value
            else:
                env[st.targets[0].id] = eval_expr(st.value, env)
        elif isinstance(st, ast.Expr) and isinstance(st.value, ast.Call) and call_name(st.value) == "super().__init__":
            call = st.value
    if call is None:
        raise AnalysisError(f"{k.name}.__init__: super().__init__ call not found")
    base_init = next((c.methods["__init__"] for c in k.mro[1:] if "__init__" in c.methods), None)
    names = base_init.params[1:] if base_init is not None else []
    bound = dict(zip(names, call.args))
    for kw in call.keywords:
        if kw.arg:
            bound[kw.arg] = kw.value
    fc = bound.get("free_coefficients", call.args[1] if len(call.args) > 1 else None)
    if isinstance(fc, ast.Name) and fc.id in seqs:
        fc = seqs[fc.id]
    if not isinstance(fc, (ast.Tuple, ast.List)):
        raise AnalysisError(f"{k.name}.__init__: free coefficients are not a literal tuple")
    free = [eval_expr(e, env) for e in fc.elts]
    init_h1 = True
    if "initial_h1_flow_step" in bound:
        v = bound["initial_h1_flow_step"]
        if not isinstance(v, ast.Constant):
            raise AnalysisError("non-literal initial_h1_flow_step")
        init_h1 = bool(v.value)
    return free, init_h1


def _substitute(e: ast.expr, subst: dict):
    import copy as _copy

    class Sub(ast.NodeTransformer):
        def visit_Name(self, n):  # noqa: N802
            return _copy.deepcopy(subst[n.id]) if n.id in subst and isinstance(n.ctx, ast.Load) else n

    return Sub().visit(_copy.deepcopy(e))


class StepExecutor:
    def __init__(self, program: Program, k: ClassInfo, comp_lists=None):
        self.p = program
        self.k = k
        self.comp_lists = comp_lists  # (coefficients, flows) for composition integrators
        self.n_copy = 0
        self.block_ids: dict[int, int] = {}
        self.depth = 0
        self.stack: list = []
        self.n_act = 0
        self.local_exprs: dict[str, ast.expr] = {}  # named intermediate expressions (for norm arguments)

    def block_id(self, body) -> int:
        return self.block_ids.setdefault(id(body), len(self.block_ids) + 1)

    def run(self):
        f = self.k.resolve("_step")
        if f is None or f.is_abstract:
            raise AnalysisError(f"{self.k.name}: _step not resolved")
        ps = f.params
        env = {ps[1]: Obj("S"), ps[2]: Rat.sym("t")}
        return self.exec_body(f, f.body_without_docstring(), env)

    # ------------------------------------------------------------------
    def time_expr(self, e, env):
        def on_name(n):
            v = env.get(n)
            return v if isinstance(v, Rat) else None

        def on_attr(a):
            return Rat.sym(norm(a))

        return eval_expr(e, {k: v for k, v in env.items() if isinstance(v, Rat)}, on_name=on_name, on_attr=on_attr)

    def obj_of(self, e, env):
        if isinstance(e, ast.Name) and isinstance(env.get(e.id), Obj):
            return env[e.id]
        return None

    def exec_body(self, f: FuncInfo, body, env, local_funcs=None):
        events = []
        local_funcs = dict(local_funcs or {})
        bid = self.block_id(body)
        for st in body:
            evs = self.exec_stmt(f, st, env, local_funcs)
            for e in evs:
                if e.block == 0:
                    e.block = bid
                    e.stack = tuple(self.stack)
            events += evs
        return events

    def exec_stmt(self, f, st, env, local_funcs):
        if isinstance(st, ast.Expr) and isinstance(st.value, ast.Constant):
            return []
        if isinstance(st, ast.FunctionDef):
            local_funcs[st.name] = st
            return []
        if isinstance(st, ast.Expr) and isinstance(st.value, ast.Call):
            return self.exec_call(f, st.value, env, local_funcs, st)
        if isinstance(st, ast.Assign):
            return self.exec_assign(f, st, env, local_funcs)
        if isinstance(st, ast.AugAssign):
            return self.exec_augassign(f, st, env)
        if isinstance(st, ast.For):
            return self.exec_for(f, st, env, local_funcs)
        if isinstance(st, ast.If):
            return self.exec_if(f, st, env, local_funcs)
        if isinstance(st, ast.Return) and st.value is None:
            return []
        raise AnalysisError(f"{f.qualname}: statement outside the step grammar: {norm(st)[:70]}")

    def exec_call(self, f, c: ast.Call, env, local_funcs, st):
        cn = call_name(c)
        # system flows
        if cn in ("self.system.h1_flow", "self.system.h2_flow"):
            o = self.obj_of(c.args[0], env)
            if o is None:
                raise AnalysisError(f"{f.qualname}: flow on unknown object {norm(c)}")
            return [Event("flow", o.id, cn.split(".")[-1], coeff=self.time_expr(c.args[1], env), node=st, func=f.qualname)]
        if cn.startswith("self.system.") and len(c.args) == 1 and self.obj_of(c.args[0], env) is not None:
            return [Event("preeval", self.obj_of(c.args[0], env).id, cn.split(".")[-1], node=st, func=f.qualname)]
        if cn != "self.projection_solver" and isinstance(c.func, ast.Name) and isinstance(env.get(c.func.id), tuple) and env[c.func.id] == ("alias", "self.projection_solver"):
            cn = "self.projection_solver"
        if cn == "self.projection_solver":
            o = self.obj_of(c.args[0], env)
            oprev = self.obj_of(c.args[1], env)
            if o is None or oprev is None:
                raise AnalysisError(f"{f.qualname}: projection_solver on unknown objects")
            return [Event("retract", o.id, coeff=self.time_expr(c.args[2], env), node=st, func=f.qualname, info={"prev": oprev.id})]
        # composition: flow(state, coefficient * time_step) handled in exec_for
        if isinstance(c.func, ast.Attribute) and is_self_attr(c.func):
            callee = self.k.resolve(c.func.attr)
            if callee is None:
                raise AnalysisError(f"{f.qualname}: cannot resolve self.{c.func.attr}")
            return self.inline(callee, c, env, f)
        # module-level helper of the integrator's own module (e.g. an extracted check)
        if isinstance(c.func, ast.Name) and c.func.id in f.module.functions:
            return self.inline(f.module.functions[c.func.id], c, env, f, skip_self=False)
        raise AnalysisError(f"{f.qualname}: call outside the step grammar: {norm(c)[:70]}")

    def inline(self, callee: FuncInfo, c: ast.Call, env, caller, skip_self=True):
        self.depth += 1
        if self.depth > 8:
            raise AnalysisError("inlining depth exceeded")
        ps = callee.params[1:] if skip_self else callee.params
        new_env = {}

        def bind(a):
            o = self.obj_of(a, env)
            if o is not None:
                return o
            if isinstance(a, ast.Name) and isinstance(env.get(a.id), Saved):
                return env[a.id]
            if isinstance(a, ast.Constant) and a.value is None:
                return NONE
            if isinstance(a, ast.Name) and isinstance(env.get(a.id), tuple):
                return env[a.id]  # norm(...) results and symbolic expressions pass through
            if isinstance(a, ast.Constant) and isinstance(a.value, str):
                return ("expr", repr(a.value))
            if is_self_attr(a) and a.attr in ("reverse_check_tol", "reverse_check_norm"):
                return ("expr", norm(a))
            return self.time_expr(a, env)

        # parameters with a None default that the call does not supply
        fa = callee.node.args
        pos = [x.arg for x in fa.posonlyargs + fa.args]
        for name, d in list(zip(pos[len(pos) - len(fa.defaults):], fa.defaults)) + [(k.arg, d) for k, d in zip(fa.kwonlyargs, fa.kw_defaults) if d is not None]:
            if isinstance(d, ast.Constant) and d.value is None:
                new_env[name] = NONE
        for p, a in zip(ps, c.args):
            new_env[p] = bind(a)
        for kw in c.keywords:
            new_env[kw.arg] = bind(kw.value)
        self.n_act += 1
        self.stack.append((callee.qualname, self.n_act))
        try:
            evs = self.exec_body(callee, callee.body_without_docstring(), new_env)
        finally:
            self.stack.pop()
        self.depth -= 1
        return evs

    def _deriv_call(self, e):
        """(name, argument object expr) if e is self.system.<deriv>(X)."""
        if isinstance(e, ast.Call) and call_name(e).startswith("self.system.") and len(e.args) == 1:
            d = call_name(e).split(".")[-1]
            if d in MOM_DERIVS or d in POS_DERIVS:
                return d
        return None

    def linear_update(self, expr, env, f):
        """expr = base + coeff * self.system.D(X): return (D, coeff Rat, rest-expr names)."""
        found = []
        self._last_at = None

        def on_call(c):
            d = self._deriv_call(c)
            if d is not None:
                found.append(d)
                o = self.obj_of(c.args[0], env)
                self._last_at = o.id if o is not None else None
                return Rat.sym(f"@{d}")
            return None

        val = eval_expr(expr, {k: v for k, v in env.items() if isinstance(v, Rat)}, on_name=lambda n: (env[n] if isinstance(env.get(n), Rat) else None), on_attr=lambda a: Rat.sym(norm(a)), on_call=on_call)
        if len(set(found)) != 1:
            raise AnalysisError(f"{f.qualname}: update expression does not contain exactly one derivative call: {norm(expr)[:70]}")
        d = found[0]
        return d, val.coeff_of(f"@{d}"), val.without(f"@{d}")

    def exec_augassign(self, f, st, env):
        t = st.target
        if isinstance(t, ast.Attribute) and self.obj_of(t.value, env) is not None and isinstance(st.op, (ast.Add, ast.Sub)):
            o = self.obj_of(t.value, env)
            d, coeff, rest = self.linear_update(st.value, env, f)
            if not rest.is_zero():
                raise AnalysisError(f"{f.qualname}: update has a non-derivative term: {norm(st)[:70]}")
            if isinstance(st.op, ast.Sub):
                coeff = -coeff
            return [Event("update", o.id, "expl", (t.attr,), (d,), (coeff,), node=st, func=f.qualname, info={"at": self._last_at})]
        raise AnalysisError(f"{f.qualname}: augmented assignment outside the step grammar: {norm(st)[:70]}")

    def fixed_point_update(self, f, fpf: ast.FunctionDef, init_expr, env, target_vars, obj):
        """Analyse nested fixed_point_func: returns (vars, derivs, coeffs)."""
        body = [s for s in fpf.body if not (isinstance(s, ast.Expr) and isinstance(s.value, ast.Constant))]
        # `a, b = E; X.p = a; X.q = b`  ==  `X.p, X.q = E`  (a, b not read afterwards)
        if body and isinstance(body[0], ast.Assign) and len(body[0].targets) == 1 and isinstance(body[0].targets[0], ast.Tuple) and all(isinstance(x, ast.Name) for x in body[0].targets[0].elts):
            names = [x.id for x in body[0].targets[0].elts]
            k = len(names)
            stores = body[1 : 1 + k]
            later = {n.id for st in body[1 + k :] for n in ast.walk(st) if isinstance(n, ast.Name)}
            if len(stores) == k and all(isinstance(st, ast.Assign) and len(st.targets) == 1 and isinstance(st.targets[0], ast.Attribute) and isinstance(st.value, ast.Name) and st.value.id == nm for st, nm in zip(stores, names)) and not (set(names) & later):
                merged = ast.Assign(targets=[ast.Tuple(elts=[st.targets[0] for st in stores], ctx=ast.Store())], value=body[0].value)
                ast.copy_location(merged, body[0])
                body = [ast.fix_missing_locations(merged)] + body[1 + k :]
        if len(body) < 2 or not isinstance(body[0], ast.Assign) or not isinstance(body[-1], ast.Return):
            raise AnalysisError(f"{f.qualname}: fixed-point function outside the accepted idiom")
        asg, ret = body[0], body[-1]
        # named intermediate values between the state update and the return are inlined
        subst: dict[str, ast.expr] = {}
        for mid in body[1:-1]:
            if not (isinstance(mid, ast.Assign) and len(mid.targets) == 1 and isinstance(mid.targets[0], ast.Name)):
                raise AnalysisError(f"{f.qualname}: fixed-point function outside the accepted idiom: {norm(mid)[:50]}")
            subst[mid.targets[0].id] = _substitute(mid.value, subst)
        if subst:
            ret = ast.Return(value=_substitute(ret.value, subst))
        arg = fpf.args.args[0].arg
        tg = asg.targets[0]
        tgs = tg.elts if isinstance(tg, ast.Tuple) else [tg]
        set_vars = tuple(x.attr for x in tgs if isinstance(x, ast.Attribute) and self.obj_of(x.value, env) is obj)
        if set_vars != tuple(target_vars):
            raise AnalysisError(f"{f.qualname}: fixed-point function sets {set_vars}, solver result assigned to {target_vars}")
        e = ret.value
        init_name = norm(init_expr)
        # the solver's initial guess: the current value of the updated variable(s), or something else
        gv = env.get(init_expr.id) if isinstance(init_expr, ast.Name) else None
        if isinstance(gv, Saved) and gv.obj == obj.id and (gv.var in set_vars or gv.var == "concat"):
            self.last_guess = "current"
        elif isinstance(gv, Saved) and gv.obj == "?" and gv.var == "concat":
            self.last_guess = "current"
        else:
            self.last_guess = f"foreign:{init_name}" + (f"={gv.obj}.{gv.var}" if isinstance(gv, Saved) else "")
        if len(set_vars) == 1:
            d, coeff, rest = self.linear_update(e, env, f)
            syms = rest.symbols()
            base_ok = False
            if len(syms) == 1 and rest.equals(Rat.sym(next(iter(syms)))):
                bv = env.get(next(iter(syms)))
                base_ok = isinstance(bv, Saved) and bv.obj == obj.id and bv.var == set_vars[0]
            if not base_ok:
                raise AnalysisError(f"{f.qualname}: fixed-point map is not `<value of {set_vars[0]} at entry> + c*deriv`: {norm(e)[:60]}")
            return set_vars, (d,), (coeff,)
        # concatenated form: init + np.concatenate([c1*D1(X), c2*D2(X)])
        if isinstance(e, ast.BinOp) and isinstance(e.op, ast.Add):
            parts = [e.left, e.right]
            base = [p for p in parts if norm(p) == init_name]
            cat = [p for p in parts if isinstance(p, ast.Call) and call_name(p) in ("np.concatenate", "numpy.concatenate")]
            if len(base) == 1 and len(cat) == 1 and isinstance(cat[0].args[0], (ast.List, ast.Tuple)):
                elts = cat[0].args[0].elts
                if len(elts) == len(set_vars):
                    ds, cs = [], []
                    for x in elts:
                        d, coeff, rest = self.linear_update(x, env, f)
                        if not rest.is_zero():
                            raise AnalysisError("concatenated update with extra term")
                        ds.append(d)
                        cs.append(coeff)
                    return set_vars, tuple(ds), tuple(cs)
        raise AnalysisError(f"{f.qualname}: fixed-point map outside the accepted idiom: {norm(e)[:70]}")

    def exec_assign(self, f, st, env, local_funcs):
        if len(st.targets) != 1:
            raise AnalysisError(f"{f.qualname}: multiple assignment targets")
        t, v = st.targets[0], st.value
        # Y = X.copy()
        if isinstance(t, ast.Name) and isinstance(v, ast.Call) and isinstance(v.func, ast.Attribute) and v.func.attr == "copy":
            src = self.obj_of(v.func.value, env)
            if src is not None:
                self.n_copy += 1
                o = Obj(f"{src.id}.copy#{self.n_copy}", origin=src.id)
                env[t.id] = o
                return [Event("copy", o.id, node=st, func=f.qualname, info={"src": src.id, "name": t.id})]
            # v = X.var.copy()
            inner = v.func.value
            if isinstance(inner, ast.Attribute) and self.obj_of(inner.value, env) is not None:
                env[t.id] = Saved(self.obj_of(inner.value, env).id, inner.attr, True)
                return []
        # local alias of a configured callable (solver = self.projection_solver)
        if isinstance(t, ast.Name) and is_self_attr(v) and v.attr in ("projection_solver", "fixed_point_solver"):
            env[t.id] = ("alias", norm(v))
            return []
        # v = w with w a saved value (alias of a saved value)
        if isinstance(t, ast.Name) and isinstance(v, ast.Name) and isinstance(env.get(v.id), Saved):
            env[t.id] = env[v.id]
            return []
        # v = X.var  (alias) / v = np.concatenate([X.pos, X.mom])
        if isinstance(t, ast.Name) and isinstance(v, ast.Attribute) and self.obj_of(v.value, env) is not None:
            env[t.id] = Saved(self.obj_of(v.value, env).id, v.attr, False)
            return []
        if isinstance(t, ast.Name) and isinstance(v, ast.Call) and call_name(v) in ("np.concatenate", "numpy.concatenate"):
            env[t.id] = Saved("?", "concat", True)
            return []
        # m = self.system.project_onto_cotangent_space(X.mom, X): projected momentum held in a local
        if isinstance(t, ast.Name) and isinstance(v, ast.Call) and call_name(v) == "self.system.project_onto_cotangent_space" and len(v.args) == 2 and self.obj_of(v.args[1], env) is not None and isinstance(v.args[0], ast.Attribute) and v.args[0].attr == "mom" and self.obj_of(v.args[0].value, env) is self.obj_of(v.args[1], env):
            env[t.id] = ("projected", self.obj_of(v.args[1], env).id)
            return []
        if isinstance(t, ast.Attribute) and t.attr == "mom" and self.obj_of(t.value, env) is not None and isinstance(v, ast.Name) and isinstance(env.get(v.id), tuple) and env[v.id][0] == "projected" and env[v.id][1] == self.obj_of(t.value, env).id:
            return [Event("project", self.obj_of(t.value, env).id, node=st, func=f.qualname)]
        # x = self._solve_fixed_point(f, x0): the solution is held in a local before it is assigned
        if isinstance(t, ast.Name) and isinstance(v, ast.Call) and call_name(v) == "self._solve_fixed_point":
            env[t.id] = ("lazy_solve", v)
            return []
        # implicit update via solver
        tgs = t.elts if isinstance(t, ast.Tuple) else [t]
        if all(isinstance(x, ast.Attribute) and self.obj_of(x.value, env) is not None for x in tgs):
            o = self.obj_of(tgs[0].value, env)
            vars_ = tuple(x.attr for x in tgs)
            solver_call = None
            for n in ast.walk(v):
                if isinstance(n, ast.Call) and call_name(n) == "self._solve_fixed_point":
                    solver_call = n
                if isinstance(n, ast.Name) and isinstance(env.get(n.id), tuple) and env[n.id] and env[n.id][0] == "lazy_solve":
                    solver_call = env[n.id][1]
            if solver_call is not None:
                fn = solver_call.args[0]
                if not (isinstance(fn, ast.Name) and fn.id in local_funcs):
                    raise AnalysisError(f"{f.qualname}: fixed-point function not a local def")
                # _solve_fixed_point must forward to the configured solver
                vs, ds, cs = self.fixed_point_update(f, local_funcs[fn.id], solver_call.args[1], env, vars_, o)
                return [Event("update", o.id, "impl", vs, ds, cs, node=st, func=f.qualname, info={"guess": self.last_guess})]
            if isinstance(v, ast.Call) and call_name(v) == "self.system.project_onto_cotangent_space" and vars_ == ("mom",):
                return [Event("project", o.id, node=st, func=f.qualname)]
            raise AnalysisError(f"{f.qualname}: state assignment outside the step grammar: {norm(st)[:70]}")
        # rev_diff = self.reverse_check_norm(expr)
        if isinstance(t, ast.Name) and isinstance(v, ast.Call) and call_name(v) == "self.reverse_check_norm":
            terms = []
            for n in ast.walk(_substitute(v.args[0], {k2: e2 for k2, e2 in self.local_exprs.items() if isinstance(e2, ast.BinOp) and isinstance(e2.op, ast.Sub)})):
                if isinstance(n, ast.BinOp) and isinstance(n.op, ast.Sub):
                    l, r = n.left, n.right
                    lo = self.obj_of(l.value, env) if isinstance(l, ast.Attribute) else None
                    if lo is None:
                        continue
                    if isinstance(r, ast.Attribute) and self.obj_of(r.value, env) is not None:
                        terms.append((lo.id, l.attr, ("obj", self.obj_of(r.value, env).id, r.attr)))
                    elif isinstance(r, ast.Name) and isinstance(env.get(r.id), Saved):
                        s = env[r.id]
                        terms.append((lo.id, l.attr, ("saved", s.obj, s.var, s.copied)))
            env[t.id] = ("norm", terms)
            return [Event("norm", node=st, func=f.qualname, info={"name": t.id, "terms": terms})]
        # plain arithmetic
        if isinstance(t, ast.Name):
            self.local_exprs[t.id] = v
            try:
                env[t.id] = self.time_expr(v, env)
            except AnalysisError:
                env[t.id] = None
            return []
        raise AnalysisError(f"{f.qualname}: assignment outside the step grammar: {norm(st)[:70]}")

    def exec_for(self, f, st: ast.For, env, local_funcs):
        it = st.iter
        if isinstance(it, ast.Call) and norm(it.func) == "range" and len(it.args) == 1:
            count = self.time_expr(it.args[0], env)
            env2 = dict(env)
            if isinstance(st.target, ast.Name):
                env2[st.target.id] = Rat.sym(f"@{st.target.id}")
            body = self.exec_body(f, st.body, env2, local_funcs)
            # objects created inside the loop stay visible by name afterwards (python scoping)
            for k2, v2 in env2.items():
                if k2 not in env:
                    env[k2] = v2
            return [Event("loop", count=count, body=body, node=st, func=f.qualname)]
        if isinstance(it, ast.Call) and norm(it.func) == "zip" and [norm(a) for a in it.args] == ["self.coefficients", "self.flows"]:
            if self.comp_lists is None:
                raise AnalysisError("composition lists not supplied")
            if not (isinstance(st.target, ast.Tuple) and len(st.target.elts) == 2):
                raise AnalysisError("unexpected zip target")
            cname, fname = (norm(x) for x in st.target.elts)
            coeffs, flows = self.comp_lists
            strict = any(kw.arg == "strict" and isinstance(kw.value, ast.Constant) and kw.value.value for kw in it.keywords)
            if len(coeffs) != len(flows) and strict:
                return [Event("error", info={"what": f"zip(strict=True) over lists of different length {len(coeffs)} / {len(flows)}"}, node=st, func=f.qualname)]
            out = []
            for cval, fl in zip(coeffs, flows):
                env2 = dict(env)
                env2[cname] = cval if isinstance(cval, Rat) else Rat.const(cval)
                for s in st.body:
                    if isinstance(s, ast.Expr) and isinstance(s.value, ast.Call) and isinstance(s.value.func, ast.Name) and s.value.func.id == fname:
                        c = s.value
                        o = self.obj_of(c.args[0], env2)
                        out.append(Event("flow", o.id, fl, coeff=self.time_expr(c.args[1], env2), node=s, func=f.qualname, block=self.block_id(st.body)))
                    elif isinstance(s, ast.Assign) and len(s.targets) == 1 and isinstance(s.targets[0], ast.Name):
                        env2[s.targets[0].id] = self.time_expr(s.value, env2)  # e.g. a named sub-step time
                    else:
                        raise AnalysisError(f"{f.qualname}: composition loop body outside grammar")
            return out
        raise AnalysisError(f"{f.qualname}: loop outside the step grammar: {norm(it)[:60]}")

    def exec_if(self, f, st: ast.If, env, local_funcs):
        # reversibility check: if <normvar> > self.reverse_check_tol: raise NonReversibleStepError
        t = st.test
        raises = [s for s in st.body if isinstance(s, ast.Raise)]
        if isinstance(t, ast.Compare) and len(t.ops) == 1 and raises and not st.orelse:
            l, r = t.left, t.comparators[0]
            info = {"test": norm(t), "raises": norm(raises[0].exc.func if isinstance(raises[0].exc, ast.Call) else raises[0].exc)}
            lv = env.get(l.id) if isinstance(l, ast.Name) else None
            rv = env.get(r.id) if isinstance(r, ast.Name) else None
            def text(x, xv):
                return xv[1] if isinstance(xv, tuple) and xv and xv[0] == "expr" else norm(x)

            if isinstance(lv, tuple) and lv and lv[0] == "norm":
                info.update(norm_terms=lv[1], op=type(t.ops[0]).__name__, bound=text(r, rv), side="left")
            elif isinstance(rv, tuple) and rv and rv[0] == "norm":
                info.update(norm_terms=rv[1], op=type(t.ops[0]).__name__, bound=text(l, lv), side="right")
            return [Event("check", node=st, func=f.qualname, info=info)]
        # `if p is None:` / `if p is not None:` on a parameter whose binding is known at this inlined call
        if isinstance(t, ast.Compare) and len(t.ops) == 1 and isinstance(t.left, ast.Name) and isinstance(t.comparators[0], ast.Constant) and t.comparators[0].value is None and t.left.id in env and isinstance(t.ops[0], (ast.Is, ast.IsNot)):
            is_none = env[t.left.id] is NONE or env[t.left.id] == NONE
            take = is_none if isinstance(t.ops[0], ast.Is) else not is_none
            return self.exec_body(f, st.body if take else st.orelse, env, local_funcs)
        # conditional pre-evaluation etc.: both arms must be free of state-changing events
        a = self.exec_body(f, st.body, dict(env), local_funcs)
        b = self.exec_body(f, st.orelse, dict(env), local_funcs) if st.orelse else []
        if any(e.kind not in ("preeval",) for e in a + b):
            raise AnalysisError(f"{f.qualname}: state-changing statements under a condition: {norm(t)[:60]}")
        return a + b


def flatten(events, mult=None):
    """Yield (event, multiplicity Rat) for non-loop events, multiplying loop counts."""
    mult = mult if mult is not None else Rat.const(1)
    for e in events:
        if e.kind == "loop":
            yield from flatten(e.body, mult * e.count)
        else:
            yield e, mult


def budget(events, obj="S"):
    """Total time per Hamiltonian component applied to ``obj``: dict comp -> Rat."""
    tot = {"H1": Rat.const(0), "H2mom": Rat.const(0), "H2pos": Rat.const(0)}
    bad = []
    for e, m in flatten(events):
        if e.obj != obj:
            continue
        if e.kind == "flow":
            if e.prim == "h1_flow":
                tot["H1"] = tot["H1"] + e.coeff * m
            else:
                tot["H2mom"] = tot["H2mom"] + e.coeff * m
                tot["H2pos"] = tot["H2pos"] + e.coeff * m
        elif e.kind == "update":
            for v, d, c in zip(e.vars, e.derivs, e.coeffs):
                if v == "mom" and d in MOM_DERIVS:
                    for comp in MOM_DERIVS[d]:
                        tot[comp] = tot[comp] + (-c) * m  # mom' = mom - tau*dH/dq
                elif v == "pos" and d in POS_DERIVS:
                    for comp in POS_DERIVS[d]:
                        tot[comp] = tot[comp] + c * m
                else:
                    bad.append((e, f"variable {v} updated with {d}"))
    return tot, bad


def signature(e: Event):
    if e.kind == "flow":
        return ("flow", e.prim, None)
    if e.kind == "update":
        return ("update", tuple(sorted(zip(e.vars, e.derivs))), e.prim)
    return None


def adjoint_sig(sig):
    if sig[0] == "flow":
        return sig
    return ("update", sig[1], "impl" if sig[2] == "expl" else "expl")


def merge_simultaneous(events):
    """Consecutive explicit updates of one object whose derivatives are all evaluated at the
    same *other* object (a copy taken before the first of them) form one simultaneous
    explicit Euler update."""
    out = []
    for e in events:
        if e.kind == "loop":
            e = Event("loop", count=e.count, body=merge_simultaneous(e.body), node=e.node, func=e.func, block=e.block)
        prev = out[-1] if out else None
        if (
            e.kind == "update" and e.prim == "expl" and prev is not None and prev.kind == "update" and prev.prim == "expl"
            and prev.obj == e.obj and e.info.get("at") not in (None, e.obj) and prev.info.get("at") == e.info.get("at")
            and not (set(prev.vars) & set(e.vars))
        ):
            out[-1] = Event("update", e.obj, "expl", prev.vars + e.vars, prev.derivs + e.derivs, prev.coeffs + e.coeffs, node=prev.node, func=e.func, info=dict(prev.info), block=prev.block)
            continue
        out.append(e)
    return out


def dynamics_sequence(events, obj="S"):
    """Sequence of (signature, coeff-key) for flows/updates on obj; loops become nested
    tuples ('loop', count, seq)."""
    out = []
    events = merge_simultaneous(events)
    for e in events:
        if e.kind == "loop":
            sub = dynamics_sequence(e.body, obj)
            if sub:
                out.append(("loop", e.count, tuple(sub)))
        elif e.obj == obj and e.kind in ("flow", "update"):
            if e.kind == "flow":
                key = (e.coeff,)
            else:
                # time coefficient with Hamilton sign removed
                key = tuple((-c if v == "mom" else c) for v, c in sorted(zip(e.vars, e.coeffs)))
            out.append((signature(e), key))
    return out


def _eq_keys(a, b):
    return len(a) == len(b) and all(x.equals(y) for x, y in zip(a, b))


def is_palindrome(seq) -> tuple[bool, str]:
    n = len(seq)
    for i in range(n):
        a, b = seq[i], seq[n - 1 - i]
        if a[0] == "loop" or b[0] == "loop":
            if not (a[0] == "loop" and b[0] == "loop"):
                return False, f"position {i}: loop vs non-loop"
            if not a[1].equals(b[1]):
                return False, f"position {i}: loop counts differ"
            # the loop body repeated N times is palindromic iff the body is, given equal bodies
            if i == n - 1 - i:
                ok, why = is_palindrome(list(a[2]))
                if not ok:
                    return False, f"loop body: {why}"
            else:
                ra = list(reversed([(adjoint_sig(s), k) if s != "loop" else (s, k) for s, k in b[2]]))
                if len(ra) != len(a[2]) or any(x[0] != y[0] or not _eq_keys(x[1], y[1]) for x, y in zip(a[2], ra)):
                    return False, f"position {i}: mirrored loop bodies differ"
            continue
        sa, ka = a
        sb, kb = b
        if adjoint_sig(sb) != sa:
            return False, f"position {i}: {sa} is not the adjoint of position {n-1-i}: {sb}"
        if not _eq_keys(ka, kb):
            return False, f"position {i}: time coefficient {ka} differs from mirrored position's {kb}"
    return True, ""
