"""E2 - statement-level control-flow graph and forward dataflow.

Nodes are simple statements, branch tests, loop heads and except-handler entries.
Edges carry a label:
  'next'                    fall through
  'true' / 'false'          outcome of an If / While test (node.ast is the test expr)
  'iter' / 'exhaust'        For loop head: another item / iterator exhausted
  'exc'                     exception raised inside a try body, to a handler entry
  'return' / 'raise' / 'fall'  to the synthetic EXIT_RETURN / EXIT_RAISE nodes
Finally bodies are duplicated per exit kind (normal, exceptional, return/break/continue).
Implicit exceptions from calls outside any try are not modelled (they leave the function).
"""

from __future__ import annotations

import ast
from dataclasses import dataclass, field

from .report import AnalysisError


@dataclass(eq=False)
class Node:
    id: int
    kind: str  # entry, stmt, test, for, handler, exit_return, exit_raise, join
    ast: ast.AST | None = None
    succ: list = field(default_factory=list)  # (Node, label)
    pred: list = field(default_factory=list)
    loop_depth: int = 0
    in_try: tuple = ()  # enclosing Try nodes (ast) whose *body* contains this node

    def __repr__(self) -> str:  # pragma: no cover
        txt = ast.unparse(self.ast)[:50] if self.ast is not None else ""
        return f"<{self.id}:{self.kind} {txt}>"

    @property
    def lineno(self) -> int:
        return getattr(self.ast, "lineno", 0)


class CFG:
    def __init__(self, func: ast.FunctionDef, catches=None, raised_class=None) -> None:
        """catches(handler_ast, raised_canonical_name) -> True/False/None and
        raised_class(raise_stmt) -> canonical name or None give exception typing; without
        them every raise is assumed possibly caught by every enclosing handler."""
        self.func = func
        self._catches = catches or (lambda h, r: None)
        self._raised_class = raised_class or (lambda st: None)
        self.nodes: list[Node] = []
        self.entry = self._new("entry")
        self.exit_return = self._new("exit_return")
        self.exit_raise = self._new("exit_raise")
        self._loops: list[tuple[Node, list]] = []  # (head, break_sources)
        self._handlers: list[list[Node]] = []  # stack of handler-entry lists
        self._finals: list[list[ast.stmt]] = []  # stack of enclosing finally bodies
        self._try_stack: list[ast.Try] = []
        ends = self._body(func.body, [(self.entry, "next")])
        for src, lab in ends:
            self._edge(src, self.exit_return, "fall" if lab == "next" else lab)

    # ------------------------------------------------------------------
    def _new(self, kind, node=None) -> Node:
        n = Node(len(self.nodes), kind, node)
        n.loop_depth = len(getattr(self, "_loops", []))
        n.in_try = tuple(getattr(self, "_try_stack", []))
        self.nodes.append(n)
        return n

    def _edge(self, a: Node, b: Node, label: str) -> None:
        a.succ.append((b, label))
        b.pred.append((a, label))

    def _connect(self, ends, node: Node) -> None:
        for src, lab in ends:
            self._edge(src, node, lab)

    def _may_raise(self, st: ast.AST) -> bool:
        if isinstance(st, ast.Raise):
            return True
        for n in ast.walk(st):
            if isinstance(n, (ast.Call, ast.Subscript, ast.BinOp, ast.Attribute, ast.Compare)):
                return True
        return False

    def _exc_edges(self, node: Node, raised: str | None = None, explicit: bool = False) -> bool:
        """Connect a may-raise node to the handlers that may catch it (innermost level
        first). Returns True when the exception is definitely caught."""
        seen_levels = []
        for hl in reversed(self._handlers):
            if any(hl is x for x in seen_levels):
                continue
            seen_levels.append(hl)
            for h in hl:
                c = self._catches(h.ast, raised) if (explicit or raised) else None
                if c is False:
                    continue
                self._edge(node, h, "exc")
                if c is True:
                    return True
        return False

    def _run_finals(self, ends, upto: int = 0):
        """Route ``ends`` through copies of the enclosing finally bodies (innermost
        first) down to stack depth ``upto``; returns the new ends."""
        for i in range(len(self._finals) - 1, upto - 1, -1):
            fb, hdepth = self._finals[i]
            saved_f, saved_h, saved_t = self._finals, self._handlers, self._try_stack
            self._finals = self._finals[:i]
            self._handlers = self._handlers[:hdepth]
            ends = self._body(fb, ends)
            self._finals, self._handlers, self._try_stack = saved_f, saved_h, saved_t
        return ends

    # ------------------------------------------------------------------
    def _body(self, body, ends):
        for st in body:
            if not ends:
                break  # unreachable code
            ends = self._stmt(st, ends)
        return ends

    def _stmt(self, st, ends):
        if isinstance(st, ast.If):
            t = self._new("test", st.test)
            t.stmt = st
            self._connect(ends, t)
            if self._may_raise(st.test):
                self._exc_edges(t)
            a = self._body(st.body, [(t, "true")])
            b = self._body(st.orelse, [(t, "false")]) if st.orelse else [(t, "false")]
            return a + b
        if isinstance(st, (ast.For, ast.While)):
            head = self._new("for" if isinstance(st, ast.For) else "test", st.iter if isinstance(st, ast.For) else st.test)
            head.stmt = st
            head.is_loop_head = True
            self._connect(ends, head)
            it = st.iter if isinstance(st, ast.For) else st.test
            if not (isinstance(it, ast.Call) and isinstance(it.func, ast.Name) and it.func.id in ("range", "enumerate", "zip", "reversed")):
                self._exc_edges(head)
            breaks: list = []
            self._loops.append((head, breaks, len(self._finals)))
            body_ends = self._body(st.body, [(head, "iter" if isinstance(st, ast.For) else "true")])
            self._loops.pop()
            for src, lab in body_ends:
                self._edge(src, head, "back" if lab == "next" else lab)
                head.has_back = True
            out = [(head, "exhaust" if isinstance(st, ast.For) else "false")]
            if st.orelse:
                out = self._body(st.orelse, out)
            return out + breaks
        if isinstance(st, ast.Try):
            return self._try(st, ends)
        if isinstance(st, ast.With):
            n = self._new("stmt", st)
            n.is_with = True
            self._connect(ends, n)
            self._exc_edges(n)
            return self._body(st.body, [(n, "next")])
        if isinstance(st, (ast.FunctionDef, ast.ClassDef, ast.AsyncFunctionDef)):
            n = self._new("stmt", st)
            n.is_def = True
            self._connect(ends, n)
            return [(n, "next")]
        n = self._new("stmt", st)
        self._connect(ends, n)
        if isinstance(st, ast.Return):
            if self._may_raise(st):
                self._exc_edges(n)
            e = self._run_finals([(n, "next")])
            for src, _lab in e:
                self._edge(src, self.exit_return, "return")
                src.return_stmt = st
            n.return_stmt = st
            return []
        if isinstance(st, ast.Raise):
            rc = self._raised_class(st)
            n.raised = rc
            if self._exc_edges(n, rc, explicit=True):
                return []
            e = self._run_finals([(n, "next")])
            for src, _lab in e:
                self._edge(src, self.exit_raise, "raise")
            return []
        if isinstance(st, ast.Break):
            if not self._loops:
                raise AnalysisError("break outside loop")
            head, breaks, fdepth = self._loops[-1]
            breaks.extend(self._run_finals([(n, "next")], fdepth))
            return []
        if isinstance(st, ast.Continue):
            head, breaks, fdepth = self._loops[-1]
            for src, _lab in self._run_finals([(n, "next")], fdepth):
                self._edge(src, head, "back")
            return []
        if self._may_raise(st):
            self._exc_edges(n)
        return [(n, "next")]

    def _try(self, st: ast.Try, ends):
        # handler entry nodes
        hnodes = []
        for h in st.handlers:
            hn = self._new("handler", h)
            hnodes.append(hn)
        if st.finalbody:
            self._finals.append((st.finalbody, len(self._handlers)))
        # body
        self._handlers.append(hnodes if hnodes else (self._handlers[-1] if self._handlers else []))
        self._try_stack.append(st)
        body_ends = self._body(st.body, ends)
        self._try_stack.pop()
        self._handlers.pop()
        if st.orelse:
            body_ends = self._body(st.orelse, body_ends)
        out = list(body_ends)
        for hn, h in zip(hnodes, st.handlers):
            out += self._body(h.body, [(hn, "next")])
        if st.finalbody:
            self._finals.pop()
            # normal completion runs the finally body once more (shared copy)
            out = self._body(st.finalbody, out) if out else out
        return out

    # ------------------------------------------------------------------
    def reachable(self, start: Node | None = None, *, pruned=None) -> set[Node]:
        seen = set()
        todo = [start or self.entry]
        while todo:
            n = todo.pop()
            if n in seen:
                continue
            seen.add(n)
            for s, lab in n.succ:
                if pruned and (n, s, lab) in pruned:
                    continue
                todo.append(s)
        return seen

    def stmts(self):
        return [n for n in self.nodes if n.kind in ("stmt", "test", "for", "handler")]


# ----------------------------------------------------------------------
def forward(cfg: CFG, init, transfer, meet, *, pruned=None, nonempty_loops=False):
    """Generic forward dataflow to a fixpoint.

    transfer(node, in_state, label) -> out_state along the edge with that label.
    meet(a, b) -> combined state (None means 'unreached').
    nonempty_loops: the 'exhaust'/'false' exit of a loop head takes only the state
    arriving over back edges (the loop body is assumed to run at least once).
    """
    IN: dict[Node, object] = {cfg.entry: init}
    IN_back: dict[Node, object] = {}
    work = [cfg.entry]
    n_iter = 0
    while work:
        n_iter += 1
        if n_iter > 200000:
            raise AnalysisError("dataflow did not converge")
        n = work.pop()
        st = IN.get(n)
        for s, lab in n.succ:
            if pruned and (n, s, lab) in pruned:
                continue
            src_state = st
            if nonempty_loops and getattr(n, "is_loop_head", False) and lab in ("exhaust", "false") and getattr(n, "has_back", False) and isinstance(getattr(n, "stmt", None), ast.For):
                src_state = IN_back.get(n)
                if src_state is None:
                    continue
            out = transfer(n, src_state, lab)
            if out is None:
                continue
            changed = False
            if getattr(s, "is_loop_head", False) and lab == "back":
                old = IN_back.get(s)
                new = out if old is None else meet(old, out)
                if new != old:
                    IN_back[s] = new
                    changed = True
            old = IN.get(s)
            new = out if old is None else meet(old, out)
            if new != old:
                IN[s] = new
                changed = True
            if changed:
                work.append(s)
    return IN


def names_stored(target: ast.AST) -> set[str]:
    out = set()
    for n in ast.walk(target):
        if isinstance(n, ast.Name) and isinstance(n.ctx, (ast.Store, ast.Del)):
            out.add(n.id)
    return out


def stmt_defs(node: Node) -> set[str]:
    """Local names (re)bound by a CFG node."""
    a = node.ast
    out: set[str] = set()
    if node.kind == "for":
        st = node.stmt
        return names_stored(st.target)
    if node.kind == "handler":
        if a.name:
            out.add(a.name)
        return out
    if node.kind == "test":
        for n in ast.walk(a):
            if isinstance(n, ast.NamedExpr):
                out |= names_stored(n.target)
        return out
    if isinstance(a, (ast.Assign, ast.AugAssign, ast.AnnAssign)):
        tgts = a.targets if isinstance(a, ast.Assign) else [a.target]
        for t in tgts:
            out |= names_stored(t)
    elif isinstance(a, (ast.FunctionDef, ast.ClassDef)):
        out.add(a.name)
    elif isinstance(a, ast.With):
        for it in a.items:
            if it.optional_vars is not None:
                out |= names_stored(it.optional_vars)
    elif isinstance(a, (ast.Import, ast.ImportFrom)):
        for al in a.names:
            out.add((al.asname or al.name).split(".")[0])
    if a is not None and not isinstance(a, (ast.FunctionDef, ast.ClassDef)):
        for n in ast.walk(a):
            if isinstance(n, ast.NamedExpr):
                out |= names_stored(n.target)
    return out


def node_expr(node: Node):
    """The AST evaluated *at* this node (not nested bodies)."""
    a = node.ast
    if node.kind in ("test", "for"):
        return a
    if node.kind == "handler":
        return a.type
    if isinstance(a, ast.With):
        return ast.Tuple(elts=[it.context_expr for it in a.items], ctx=ast.Load())
    if isinstance(a, (ast.FunctionDef, ast.ClassDef)):
        return None
    return a


def uses(node: Node) -> list[ast.Name]:
    e = node_expr(node)
    if e is None:
        return []
    out = []
    todo = [e]
    while todo:
        n = todo.pop()
        if isinstance(n, (ast.FunctionDef, ast.Lambda, ast.ClassDef)):
            continue
        if isinstance(n, (ast.ListComp, ast.SetComp, ast.DictComp, ast.GeneratorExp)):
            # comprehension variables are local to it: only the first iterable is evaluated outside
            bound = set()
            for g in n.generators:
                bound |= names_stored(g.target)
            for sub in ast.walk(n):
                if isinstance(sub, ast.Name) and isinstance(sub.ctx, ast.Load) and sub.id not in bound:
                    out.append(sub)
            continue
        if isinstance(n, ast.Name) and isinstance(n.ctx, ast.Load):
            out.append(n)
        todo.extend(ast.iter_child_nodes(n))
    return out


def definitely_assigned(cfg: CFG, params: set[str], *, nonempty_loops=True):
    """Must-defined local names at entry of each node (intersection meet)."""

    def transfer(n, st, lab):
        if st is None:
            return None
        if lab == "exc":
            # the statement may have raised before binding anything
            return st
        return frozenset(st | stmt_defs(n))

    return forward(cfg, frozenset(params), transfer, lambda a, b: a & b, nonempty_loops=nonempty_loops)


def local_names(func: ast.FunctionDef) -> set[str]:
    """Names that are local variables of func (assigned somewhere in it)."""
    out = set()
    a = func.args
    for x in a.posonlyargs + a.args + a.kwonlyargs:
        out.add(x.arg)
    if a.vararg:
        out.add(a.vararg.arg)
    if a.kwarg:
        out.add(a.kwarg.arg)
    todo = list(func.body)
    while todo:
        n = todo.pop()
        if isinstance(n, (ast.FunctionDef, ast.ClassDef)):
            out.add(n.name)
            continue
        if isinstance(n, ast.Lambda):
            continue
        if isinstance(n, (ast.ListComp, ast.SetComp, ast.DictComp, ast.GeneratorExp)):
            continue
        if isinstance(n, ast.Name) and isinstance(n.ctx, (ast.Store, ast.Del)):
            out.add(n.id)
        if isinstance(n, ast.ExceptHandler) and n.name:
            out.add(n.name)
        if isinstance(n, (ast.Import, ast.ImportFrom)):
            for al in n.names:
                out.add((al.asname or al.name).split(".")[0])
        todo.extend(ast.iter_child_nodes(n))
    return out
