"""E1 - resolved program model of /repo/src/mici (ast only).

Modules, classes with C3 linearisation, per-class method resolution (self.m,
super().m, Cls.m(self, ...)), decorator facts (cache_in_state*), constructor
assigned attributes, trivial property inlining.
"""

from __future__ import annotations

import ast
import os
from dataclasses import dataclass, field
from pathlib import Path

from .report import AnalysisError

REPO = Path(os.environ.get("MVERIF_REPO", "/repo"))
SRC = REPO / "src" / "mici"


def norm(node: ast.AST | None) -> str:
    """Normalised text of a node (position independent)."""
    if node is None:
        return "None"
    return ast.unparse(node)


@dataclass
class FuncInfo:
    name: str
    node: ast.FunctionDef
    module: "ModuleInfo"
    cls: "ClassInfo | None" = None
    is_property: bool = False
    is_setter: bool = False
    is_abstract: bool = False
    is_static: bool = False
    cache_deps: tuple | None = None  # declared dependencies if cache_in_state*
    cache_aux: tuple = ()
    cache_decorator: str | None = None

    @property
    def qualname(self) -> str:
        return f"{self.cls.name}.{self.name}" if self.cls else self.name

    @property
    def file(self) -> str:
        return str(self.module.path)

    @property
    def params(self) -> list[str]:
        a = self.node.args
        return [x.arg for x in a.posonlyargs + a.args + a.kwonlyargs]

    def body_without_docstring(self) -> list[ast.stmt]:
        b = self.node.body
        if (
            b
            and isinstance(b[0], ast.Expr)
            and isinstance(b[0].value, ast.Constant)
            and isinstance(b[0].value.value, str)
        ):
            return b[1:]
        return b


@dataclass
class ClassInfo:
    name: str
    node: ast.ClassDef
    module: "ModuleInfo"
    base_names: list[str] = field(default_factory=list)
    bases: list["ClassInfo"] = field(default_factory=list)  # internal bases only
    external_bases: list[str] = field(default_factory=list)
    methods: dict[str, FuncInfo] = field(default_factory=dict)
    setters: dict[str, FuncInfo] = field(default_factory=dict)
    class_attrs: dict[str, ast.expr] = field(default_factory=dict)
    mro: list["ClassInfo"] = field(default_factory=list)

    def resolve(self, name: str) -> FuncInfo | None:
        for c in self.mro:
            if name in c.methods:
                return c.methods[name]
            if name in c.class_attrs:
                # alias such as ``T = transpose``
                v = c.class_attrs[name]
                if isinstance(v, ast.Name) and v.id in c.methods:
                    return c.methods[v.id]
                # alias of another class's method: ``dh_dpos = System.dh_dpos``
                if isinstance(v, ast.Attribute) and isinstance(v.value, ast.Name):
                    other = next((k for k in self.mro if k.name == v.value.id), None) or getattr(self, "_program_classes", {}).get(v.value.id)
                    if other is not None and v.attr in other.methods:
                        return other.methods[v.attr]
                return None
        return None

    def resolve_class_attr(self, name: str):
        for c in self.mro:
            if name in c.methods:
                return c.methods[name]
            if name in c.class_attrs:
                return c.class_attrs[name]
        return None

    def resolve_super(self, defining: "ClassInfo", name: str) -> FuncInfo | None:
        """Resolution of ``super().name`` written inside ``defining`` for an
        instance whose class is ``self``."""
        try:
            i = self.mro.index(defining)
        except ValueError as e:  # pragma: no cover
            msg = f"{defining.name} not in MRO of {self.name}"
            raise AnalysisError(msg) from e
        for c in self.mro[i + 1 :]:
            if name in c.methods:
                return c.methods[name]
        return None

    def is_subclass_of(self, other: str) -> bool:
        return any(c.name == other for c in self.mro)

    def abstract_names(self) -> set[str]:
        out = set()
        seen = set()
        for c in self.mro:
            for n, f in c.methods.items():
                if n in seen:
                    continue
                seen.add(n)
                if f.is_abstract:
                    out.add(n)
            for n in c.class_attrs:
                seen.add(n)
        return out

    @property
    def is_concrete(self) -> bool:
        return not self.abstract_names()

    def init_attr_assignments(self) -> dict[str, list[tuple[FuncInfo, ast.stmt]]]:
        """self.<attr> = ... statements in __init__ along the MRO."""
        out: dict[str, list] = {}
        for c in self.mro:
            f = c.methods.get("__init__")
            if f is None:
                continue
            for st in ast.walk(f.node):
                if isinstance(st, (ast.Assign, ast.AnnAssign, ast.AugAssign)):
                    targets = st.targets if isinstance(st, ast.Assign) else [st.target]
                    for t in targets:
                        for tt in t.elts if isinstance(t, ast.Tuple) else [t]:
                            if (
                                isinstance(tt, ast.Attribute)
                                and isinstance(tt.value, ast.Name)
                                and tt.value.id == "self"
                            ):
                                out.setdefault(tt.attr, []).append((f, st))
        return out


@dataclass
class ModuleInfo:
    name: str
    path: Path
    tree: ast.Module
    source: str
    classes: dict[str, ClassInfo] = field(default_factory=dict)
    functions: dict[str, FuncInfo] = field(default_factory=dict)
    imports: dict[str, str] = field(default_factory=dict)  # local name -> dotted
    constants: dict[str, ast.expr] = field(default_factory=dict)


def strip_copy(e):
    """Value-preserving copies are transparent to the algebraic evaluators:
    ``x.copy()``, ``np.copy(x)``, ``np.array(x)`` denote the same value as ``x``."""
    while True:
        if isinstance(e, ast.Call) and isinstance(e.func, ast.Attribute) and e.func.attr == "copy" and not e.args and not e.keywords and not (isinstance(e.func.value, ast.Name) and e.func.value.id in ("np", "copy")):
            e = e.func.value
            continue
        if isinstance(e, ast.Call) and norm(e.func) in ("np.copy", "np.array", "copy.copy", "copy.deepcopy") and len(e.args) == 1 and not e.keywords:
            e = e.args[0]
            continue
        return e

def unroll_constant_loops(stmts: list) -> list:
    """Unroll ``for x in (<constants>): body`` (also pairs of constants with a tuple target) and fold
    f-strings / string concatenations that become constant, so that table-like code written as a
    loop over names is analysed like its unrolled form."""
    import copy as _copy

    def const_items(it):
        if isinstance(it, (ast.Tuple, ast.List)) and it.elts and all(isinstance(e, ast.Constant) or (isinstance(e, (ast.Tuple, ast.List)) and all(isinstance(x, ast.Constant) for x in e.elts)) for e in it.elts):
            return it.elts
        return None

    class Fold(ast.NodeTransformer):
        def __init__(self, binds):
            self.binds = binds

        def visit_Name(self, n):  # noqa: N802
            if isinstance(n.ctx, ast.Load) and n.id in self.binds:
                return ast.copy_location(ast.Constant(value=self.binds[n.id]), n)
            return n

        def visit_JoinedStr(self, n):  # noqa: N802
            self.generic_visit(n)
            parts = []
            for v in n.values:
                if isinstance(v, ast.Constant):
                    parts.append(str(v.value))
                elif isinstance(v, ast.FormattedValue) and isinstance(v.value, ast.Constant) and v.format_spec is None and v.conversion == -1:
                    parts.append(str(v.value.value))
                else:
                    return n
            return ast.copy_location(ast.Constant(value="".join(parts)), n)

        def visit_BinOp(self, n):  # noqa: N802
            self.generic_visit(n)
            if isinstance(n.op, ast.Add) and isinstance(n.left, ast.Constant) and isinstance(n.right, ast.Constant) and isinstance(n.left.value, str) and isinstance(n.right.value, str):
                return ast.copy_location(ast.Constant(value=n.left.value + n.right.value), n)
            return n

    out = []
    for st in stmts:
        items = const_items(st.iter) if isinstance(st, ast.For) and not st.orelse else None
        if items is None:
            out.append(st)
            continue
        for it in items:
            binds = {}
            if isinstance(st.target, ast.Name) and isinstance(it, ast.Constant):
                binds[st.target.id] = it.value
            elif isinstance(st.target, (ast.Tuple, ast.List)) and isinstance(it, (ast.Tuple, ast.List)) and len(st.target.elts) == len(it.elts) and all(isinstance(x, ast.Name) for x in st.target.elts):
                binds = {x.id: c.value for x, c in zip(st.target.elts, it.elts)}
            else:
                out.append(st)
                break
            body = [ast.fix_missing_locations(Fold(binds).visit(_copy.deepcopy(b))) for b in st.body]
            out.extend(unroll_constant_loops(body))
    return out

def single_assignment_locals(func: ast.FunctionDef) -> dict:
    """Locals of ``func`` that are bound exactly once, by a plain top-level ``name = expr`` (or a tuple
    unpacking of a tuple literal), and never re-bound, augmented or deleted anywhere in the function.
    Such a name denotes the value of its expression wherever it is read (provided the function does
    not mutate what the expression reads in between - callers use this for small pure methods)."""
    counts: dict[str, int] = {}
    defs: dict[str, ast.expr] = {}
    params = {a.arg for a in func.args.posonlyargs + func.args.args + func.args.kwonlyargs}
    for n in ast.walk(func):
        if isinstance(n, (ast.FunctionDef, ast.AsyncFunctionDef, ast.Lambda)) and n is not func:
            continue
        stores = []
        if isinstance(n, ast.Assign):
            for t in n.targets:
                stores += [x for x in ast.walk(t) if isinstance(x, ast.Name) and isinstance(x.ctx, ast.Store)]
        elif isinstance(n, (ast.AugAssign, ast.AnnAssign)):
            stores += [x for x in ast.walk(n.target) if isinstance(x, ast.Name) and isinstance(x.ctx, ast.Store)]
        elif isinstance(n, (ast.For, ast.comprehension)):
            stores += [x for x in ast.walk(n.target) if isinstance(x, ast.Name)]
        elif isinstance(n, (ast.With,)):
            for it in n.items:
                if it.optional_vars is not None:
                    stores += [x for x in ast.walk(it.optional_vars) if isinstance(x, ast.Name)]
        elif isinstance(n, ast.NamedExpr):
            stores.append(n.target)
        for x in stores:
            counts[x.id] = counts.get(x.id, 0) + (2 if isinstance(n, (ast.AugAssign, ast.For, ast.comprehension, ast.NamedExpr)) else 1)
    for st in func.body:
        if isinstance(st, ast.Assign) and len(st.targets) == 1:
            t = st.targets[0]
            if isinstance(t, ast.Name) and counts.get(t.id) == 1 and t.id not in params:
                defs[t.id] = st.value
            elif isinstance(t, ast.Tuple) and isinstance(st.value, ast.Tuple) and len(t.elts) == len(st.value.elts):
                for x, v in zip(t.elts, st.value.elts):
                    if isinstance(x, ast.Name) and counts.get(x.id) == 1 and x.id not in params:
                        defs[x.id] = v
    # a local whose object is updated in place (item / attribute store, augmented item store) does not keep
    # the value of its defining expression - unless that expression is itself just a name for the object
    mutated = set()
    for n in ast.walk(func):
        tg = n.targets if isinstance(n, ast.Assign) else [n.target] if isinstance(n, (ast.AugAssign, ast.AnnAssign)) else n.targets if isinstance(n, ast.Delete) else []
        for t in tg:
            for x in (t.elts if isinstance(t, (ast.Tuple, ast.List)) else [t]):
                b = x
                while isinstance(b, (ast.Subscript, ast.Attribute)):
                    b = b.value
                if b is not x and isinstance(b, ast.Name):
                    mutated.add(b.id)
    return {k: v for k, v in defs.items() if k not in mutated or isinstance(v, (ast.Attribute, ast.Name))}


def expand_locals(e: ast.expr, defs: dict, depth: int = 0) -> ast.expr:
    """``e`` with every single-assignment local replaced (recursively) by its defining expression."""
    import copy as _copy

    if depth > 8:
        return e

    class Sub(ast.NodeTransformer):
        def visit_Name(self, n):  # noqa: N802
            if isinstance(n.ctx, ast.Load) and n.id in defs:
                return expand_locals(_copy.deepcopy(defs[n.id]), defs, depth + 1)
            return n

    return ast.fix_missing_locations(Sub().visit(_copy.deepcopy(e)))

def dict_store_keys(func: ast.FunctionDef, target_text: str) -> set:
    """Constant keys stored into the dict named ``target_text`` (e.g. ``self._statistic_types``)
    anywhere in ``func``: ``d[k] = v``, ``d = {...}``, ``d.update({...})`` / ``d.update(k=v)``,
    ``d |= {...}``, ``d.setdefault(k, v)``."""
    out = set()

    def keys_of(d):
        if isinstance(d, ast.Dict):
            return {k.value for k in d.keys if isinstance(k, ast.Constant)}
        if isinstance(d, ast.Call) and norm(d.func) == "dict":
            return {kw.arg for kw in d.keywords if kw.arg}
        return set()

    for n in ast.walk(func):
        if isinstance(n, ast.Assign):
            for t in n.targets:
                if isinstance(t, ast.Subscript) and norm(t.value) == target_text and isinstance(t.slice, ast.Constant):
                    out.add(t.slice.value)
                if norm(t) == target_text:
                    out |= keys_of(n.value)
        if isinstance(n, ast.AugAssign) and norm(n.target) == target_text and isinstance(n.op, ast.BitOr):
            out |= keys_of(n.value)
        if isinstance(n, ast.Call) and isinstance(n.func, ast.Attribute) and norm(n.func.value) == target_text:
            if n.func.attr == "update":
                for a in n.args:
                    out |= keys_of(a)
                out |= {kw.arg for kw in n.keywords if kw.arg}
            if n.func.attr == "setdefault" and n.args and isinstance(n.args[0], ast.Constant):
                out.add(n.args[0].value)
    return out

def inline_private_helpers(f: "FuncInfo", depth: int = 3, methods: bool = False, keep=frozenset(), only=None, closures=frozenset()) -> ast.FunctionDef:
    """A copy of ``f``'s definition in which calls to private module-level helper functions of the same
    module (``_name(...)`` used as a statement or as the whole right-hand side of an assignment) are
    replaced by the helper's body: parameters are bound to the argument expressions, the helper's own
    locals get a unique prefix, and a final ``return e`` becomes the assignment to the call's targets.
    Only straight-line-at-exit helpers qualify (no return except as the last statement, no nested
    definitions); anything else is left as a call.  Used so that code whose shared parts were
    extracted into helpers is analysed like the code it replaced."""
    import copy as _copy

    counter = [0]
    local_closures: dict = {}
    funcs = f.module.functions
    # names already used in the caller: an inlined local is renamed only when it would collide
    def _names_outside_closures(root):
        out = set()
        stack = [root]
        while stack:
            n = stack.pop()
            if isinstance(n, ast.FunctionDef) and n is not root and n.name in closures:
                continue  # the locals of a nested function that is itself inlined are not the caller's
            if isinstance(n, ast.Name):
                out.add(n.id)
            elif isinstance(n, ast.arg):
                out.add(n.arg)
            stack.extend(ast.iter_child_nodes(n))
        return out

    caller_names = _names_outside_closures(f.node)

    def ends(stmts):
        """The statement list always leaves (return / raise) at its end."""
        if not stmts:
            return False
        last = stmts[-1]
        if isinstance(last, (ast.Return, ast.Raise)):
            return True
        if isinstance(last, ast.If):
            return ends(last.body) and ends(last.orelse)
        return False

    def returns_only_in_ifs(stmts):
        """Every `return` sits at the top level of the body, of (nested) if-arms, or of exception
        handlers all of which leave the function (the code after the `try` is then its else-part)."""
        for st in stmts:
            if isinstance(st, ast.Return):
                continue
            if isinstance(st, ast.If):
                if not returns_only_in_ifs(st.body) or not returns_only_in_ifs(st.orelse):
                    return False
                continue
            if isinstance(st, ast.With):
                # a `with` block is transparent for returns (the context manager exits either way)
                if not returns_only_in_ifs(st.body):
                    return False
                continue
            if isinstance(st, ast.Try) and any(isinstance(n, ast.Return) for n in ast.walk(st)):
                if any(isinstance(n, ast.Return) for x in list(st.body) + list(st.finalbody) for n in ast.walk(x)):
                    return False
                if not all(ends(h.body) and returns_only_in_ifs(h.body) for h in st.handlers):
                    return False
                if not returns_only_in_ifs(st.orelse):
                    return False
                continue
            if any(isinstance(n, ast.Return) for n in ast.walk(st)):
                return False
        return True

    class _Closure:
        """A nested function of ``f`` presented like a FuncInfo."""

        cls = None
        is_property = False
        is_abstract = False
        cache_deps = None

        def __init__(self, node):
            self.node = node
            self.name = node.name

        def body_without_docstring(self):
            b = self.node.body
            if b and isinstance(b[0], ast.Expr) and isinstance(b[0].value, ast.Constant) and isinstance(b[0].value.value, str):
                return b[1:]
            return b

    def eligible(g, tail=False):
        if g is None or g is f or g.is_property or g.is_abstract or g.cache_deps is not None or g.name in keep:
            return False
        if not isinstance(g, _Closure):
            if not g.name.startswith("_") or g.name.startswith("__"):
                return False
            if only is not None and g.name not in only:
                return False
        # a decorated helper is not its body (memoisation, wrapping): it stays a call
        if any(norm(d) not in ("staticmethod",) for d in g.node.decorator_list):
            return False
        body = g.body_without_docstring()
        if not body:
            return False
        for st in body:
            for n in ast.walk(st):
                if isinstance(n, (ast.FunctionDef, ast.AsyncFunctionDef, ast.Lambda, ast.Yield, ast.YieldFrom, ast.Nonlocal, ast.Global)):
                    return False
        if not tail and not returns_only_in_ifs(body):
            return False
        a = g.node.args
        return not (a.vararg or a.kwarg)

    def single_exit(stmts, targets):
        """Replace every `return e` (top level / if-arms) by `targets = e`; code after an arm that
        returns moves into the other arm.  -> (statements, all paths assigned?)"""
        out = []
        for i, st in enumerate(stmts):
            if isinstance(st, ast.Return):
                if targets is not None:
                    out.append(ast.Assign(targets=_copy.deepcopy(targets), value=st.value if st.value is not None else ast.Constant(value=None)))
                return out, True
            if isinstance(st, ast.Raise):
                out.append(st)
                return out, True
            if isinstance(st, ast.Try) and any(isinstance(n, ast.Return) for n in ast.walk(st)):
                # handlers all leave: what follows the try is its else-part
                rest = stmts[i + 1 :]
                handlers = []
                for h in st.handlers:
                    hb, _t = single_exit(list(h.body), targets)
                    handlers.append(ast.ExceptHandler(type=h.type, name=h.name, body=hb or [ast.Pass()]))
                ob, t_else = single_exit(list(st.orelse) + list(rest), targets)
                out.append(ast.Try(body=st.body, handlers=handlers, orelse=ob, finalbody=st.finalbody))
                return out, t_else
            if isinstance(st, ast.With) and any(isinstance(n, ast.Return) for n in ast.walk(st)):
                wb, tw = single_exit(list(st.body), targets)
                out.append(ast.With(items=st.items, body=wb or [ast.Pass()]))
                if tw:
                    return out, True
                continue
            if isinstance(st, ast.If) and any(isinstance(n, ast.Return) for n in ast.walk(st)):
                rest = stmts[i + 1 :]
                b, tb = single_exit(list(st.body), targets)
                o, to = single_exit(list(st.orelse), targets)
                if tb and not to:
                    o, to = single_exit(list(st.orelse) + list(rest), targets)
                elif to and not tb:
                    b, tb = single_exit(list(st.body) + list(rest), targets)
                elif not tb and not to:
                    out.append(ast.If(test=st.test, body=b or [ast.Pass()], orelse=o))
                    continue
                out.append(ast.If(test=st.test, body=b or [ast.Pass()], orelse=o))
                return out, tb and to
            out.append(st)
        return out, False

    def expand(g, call, targets, level, tail=False):
        counter[0] += 1
        pre = f"_h{counter[0]}_"
        a = g.node.args
        params = [x.arg for x in a.posonlyargs + a.args + a.kwonlyargs]
        if g.cls is not None and params and params[0] == "self":
            params = params[1:]
        defaults = {}
        pos = a.posonlyargs + a.args
        for prm, d in zip(pos[len(pos) - len(a.defaults):], a.defaults):
            defaults[prm.arg] = d
        for prm, d in zip(a.kwonlyargs, a.kw_defaults):
            if d is not None:
                defaults[prm.arg] = d
        binds = {}
        for prm, arg in zip(params, call.args):
            binds[prm] = arg
        for kw in call.keywords:
            if kw.arg is None:
                return None
            binds[kw.arg] = kw.value
        for prm in params:
            if prm not in binds:
                if prm not in defaults:
                    return None
                binds[prm] = defaults[prm]
        body = _copy.deepcopy(g.body_without_docstring())
        # names stored in the helper (its locals)
        stored = set()
        for st in body:
            for n in ast.walk(st):
                if isinstance(n, ast.Name) and isinstance(n.ctx, ast.Store):
                    stored.add(n.id)
        out = []
        # a parameter that the helper re-binds, or a non-trivial argument used more than once, gets a temp
        for prm in params:
            arg = binds[prm]
            uses = sum(1 for st in body for n in ast.walk(st) if isinstance(n, ast.Name) and n.id == prm and isinstance(n.ctx, ast.Load))
            simple = isinstance(arg, (ast.Name, ast.Constant)) or (isinstance(arg, ast.Attribute) and isinstance(arg.value, ast.Name))
            if tail and isinstance(arg, ast.Name) and arg.id == prm:
                continue  # the caller's own variable of the same name: it is dead after a tail call, the helper may re-bind it
            if prm in stored or (not simple and uses > 1):
                tmp = pre + prm
                out.append(ast.Assign(targets=[ast.Name(id=tmp, ctx=ast.Store())], value=_copy.deepcopy(arg)))
                binds[prm] = ast.Name(id=tmp, ctx=ast.Load())
                stored.discard(prm)

        # helper locals that are simply handed back take the caller's names (no copy statement)
        direct = {}
        last = body[-1] if body else None
        early = any(isinstance(n, ast.Return) for st in body[:-1] for n in ast.walk(st))
        if not tail and not early and isinstance(last, ast.Return) and last.value is not None and targets is not None and len(targets) == 1:
            rv, tg = last.value, targets[0]
            pairs = []
            if isinstance(rv, ast.Name) and isinstance(tg, ast.Name):
                pairs = [(rv, tg)]
            elif isinstance(rv, ast.Tuple) and isinstance(tg, ast.Tuple) and len(rv.elts) == len(tg.elts):
                pairs = list(zip(rv.elts, tg.elts))
            if pairs and all(isinstance(x, ast.Name) and isinstance(y, ast.Name) and x.id in stored and x.id not in params for x, y in pairs) and len({x.id for x, _ in pairs}) == len(pairs):
                direct = {x.id: y.id for x, y in pairs}
                body = body[:-1]
                targets = None

        class Ren(ast.NodeTransformer):
            def visit_Name(self, n):  # noqa: N802
                if n.id in direct:
                    return ast.Name(id=direct[n.id], ctx=n.ctx)
                if n.id in binds and n.id in params:
                    if isinstance(n.ctx, ast.Load):
                        return _copy.deepcopy(binds[n.id])
                    b = binds[n.id]
                    return ast.Name(id=b.id, ctx=n.ctx) if isinstance(b, ast.Name) else n
                if n.id in stored and n.id in caller_names:
                    return ast.Name(id=pre + n.id, ctx=n.ctx)
                return n

        body = [Ren().visit(st) for st in body]
        caller_names.update(stored)  # a second inlined copy of the same helper must not share them
        if tail:
            # the call was the operand of a `return`: the helper's own returns leave the caller directly
            if not ends(body):
                body.append(ast.Return(value=ast.Constant(value=None)))
        elif any(isinstance(n, ast.Return) for st in body[:-1] for n in ast.walk(st)) or (body and not isinstance(body[-1], ast.Return) and any(isinstance(n, ast.Return) for n in ast.walk(body[-1]))):
            body, _all = single_exit(body, targets)
            if targets is not None and not _all:
                body.append(ast.Assign(targets=_copy.deepcopy(targets), value=ast.Constant(value=None)))
            targets = None
        if tail:
            pass
        elif body and isinstance(body[-1], ast.Return):
            ret = body.pop()
            if targets is not None and ret.value is not None:
                body.append(ast.Assign(targets=_copy.deepcopy(targets), value=ret.value))
            elif targets is not None:
                body.append(ast.Assign(targets=_copy.deepcopy(targets), value=ast.Constant(value=None)))
        elif targets is not None:
            body.append(ast.Assign(targets=_copy.deepcopy(targets), value=ast.Constant(value=None)))
        out.extend(body)
        # every node of the inlined code is located at the call site: orderings by line number then
        # agree with the execution order in the caller (the helper's own lines lie elsewhere in the file)
        for st in out:
            for n in ast.walk(st):
                if isinstance(n, (ast.stmt, ast.expr, ast.excepthandler)):
                    n.lineno = getattr(call, "lineno", 0)
                    n.end_lineno = getattr(call, "end_lineno", n.lineno)
                    n.col_offset = getattr(call, "col_offset", 0)
                    n.end_col_offset = getattr(call, "end_col_offset", 0)
        return process(out, level + 1)

    def helper_call(e, tail=False):
        if isinstance(e, ast.Call) and isinstance(e.func, ast.Name) and e.func.id in local_closures and eligible(local_closures[e.func.id], tail):
            return local_closures[e.func.id]
        if isinstance(e, ast.Call) and isinstance(e.func, ast.Name) and e.func.id not in local_closures and eligible(funcs.get(e.func.id), tail):
            return funcs[e.func.id]
        # private helper method of the function's own class, called on self
        if methods and isinstance(e, ast.Call) and isinstance(e.func, ast.Attribute) and isinstance(e.func.value, ast.Name) and e.func.value.id == "self" and f.cls is not None:
            g = f.cls.resolve(e.func.attr)
            if g is not None and g.cls is not None and eligible(g, tail):
                return g
        return None

    def process(stmts, level):
        out = []
        for st in stmts:
            rep = None
            if level < depth:
                if isinstance(st, ast.Expr) and helper_call(st.value):
                    rep = expand(helper_call(st.value), st.value, None, level)
                elif isinstance(st, ast.Assign) and helper_call(st.value):
                    rep = expand(helper_call(st.value), st.value, st.targets, level)
                elif isinstance(st, ast.Return) and st.value is not None and helper_call(st.value, tail=True):
                    g_t = helper_call(st.value, tail=True)
                    body_t = g_t.body_without_docstring()
                    # a single `return e` helper is handled at expression level; splice anything larger
                    if not (len(body_t) == 1 and isinstance(body_t[0], ast.Return)):
                        rep = expand(g_t, st.value, None, level, tail=True)
            if rep is not None:
                out.extend(rep)
                continue
            # recurse into compound statements
            for fld in ("body", "orelse", "finalbody"):
                if hasattr(st, fld) and isinstance(getattr(st, fld), list) and getattr(st, fld) and isinstance(getattr(st, fld)[0], ast.stmt):
                    setattr(st, fld, process(getattr(st, fld), level))
            if isinstance(st, ast.Try):
                for h in st.handlers:
                    h.body = process(h.body, level)
            out.append(st)
        return out

    # helpers that are a single `return <expr>` are substituted wherever they are called in an
    # expression (arguments bound by substitution; an argument used more than once must be simple)
    def inline_expr_calls(tree, level=0):
        class T(ast.NodeTransformer):
            def visit_Call(self, c):  # noqa: N802
                self.generic_visit(c)
                g = helper_call(c)
                if g is None or level >= depth:
                    return c
                body = g.body_without_docstring()
                if len(body) != 1 or not isinstance(body[0], ast.Return) or body[0].value is None:
                    return c
                a = g.node.args
                params = [x.arg for x in a.posonlyargs + a.args + a.kwonlyargs]
                if g.cls is not None and params and params[0] == "self":
                    params = params[1:]
                if any(kw.arg is None for kw in c.keywords) or len(c.args) > len(params):
                    return c
                binds = dict(zip(params, c.args))
                for kw in c.keywords:
                    binds[kw.arg] = kw.value
                pos = a.posonlyargs + a.args
                for prm, d in zip(pos[len(pos) - len(a.defaults):], a.defaults):
                    binds.setdefault(prm.arg, d)
                if any(prm not in binds for prm in params):
                    return c
                expr = body[0].value
                for prm in params:
                    uses = sum(1 for n in ast.walk(expr) if isinstance(n, ast.Name) and n.id == prm)
                    arg = binds[prm]
                    simple = isinstance(arg, (ast.Name, ast.Constant)) or (isinstance(arg, ast.Attribute) and isinstance(arg.value, ast.Name))
                    if uses > 1 and not simple:
                        return c

                class Sub(ast.NodeTransformer):
                    def visit_Name(self, n):  # noqa: N802
                        if n.id in binds and isinstance(n.ctx, ast.Load):
                            return _copy.deepcopy(binds[n.id])
                        return n

                new_e = Sub().visit(_copy.deepcopy(expr))
                for n in ast.walk(new_e):
                    if isinstance(n, ast.expr):
                        n.lineno = getattr(c, "lineno", 0)
                        n.end_lineno = getattr(c, "end_lineno", n.lineno)
                        n.col_offset = getattr(c, "col_offset", 0)
                        n.end_col_offset = getattr(c, "end_col_offset", 0)
                return new_e

        return T().visit(tree)

    node = _copy.deepcopy(f.node)
    local_closures.update({n.name: _Closure(n) for n in ast.walk(node) if isinstance(n, ast.FunctionDef) and n is not node and n.name in closures})
    node.body = process(node.body, 0)
    node = inline_expr_calls(node)
    if local_closures:
        # a nested function that is no longer referenced has been absorbed into its call sites
        loads = {n.id for n in ast.walk(node) if isinstance(n, ast.Name) and isinstance(n.ctx, ast.Load)}

        class Drop(ast.NodeTransformer):
            def visit_FunctionDef(self, n):  # noqa: N802
                if n is not node and n.name in local_closures and n.name not in loads:
                    return None
                return self.generic_visit(n)

        node = Drop().visit(node)
    return ast.fix_missing_locations(node)

def execution_condition(func: ast.AST, stmt: ast.stmt, stop_at=(ast.For, ast.While, ast.FunctionDef)):
    """Conjunction of the conditions under which ``stmt`` executes within the innermost enclosing
    loop body / function: tests of enclosing ``if``s (negated in the else arm) and negated tests of
    preceding guard clauses that leave the block (continue / break / return / raise).
    Returns a list of (test expression, required truth value)."""
    parents = {}
    for n in ast.walk(func):
        for fld, val in ast.iter_fields(n):
            if isinstance(val, list):
                for x in val:
                    if isinstance(x, ast.AST):
                        parents[x] = (n, fld)
            elif isinstance(val, ast.AST):
                parents[val] = (n, fld)
    conds = []
    node = stmt
    while node in parents:
        par, fld = parents[node]
        block = getattr(par, fld) if isinstance(getattr(par, fld, None), list) else None
        if block is not None and node in block:
            for prev in block[: block.index(node)]:
                if isinstance(prev, ast.If):
                    leaves_body = bool(prev.body) and isinstance(prev.body[-1], (ast.Continue, ast.Break, ast.Return, ast.Raise))
                    leaves_else = bool(prev.orelse) and isinstance(prev.orelse[-1], (ast.Continue, ast.Break, ast.Return, ast.Raise))
                    if leaves_body and not leaves_else:
                        conds.append((prev.test, False))
                    elif leaves_else and not leaves_body:
                        conds.append((prev.test, True))
        if isinstance(par, ast.If) and fld in ("body", "orelse"):
            conds.append((par.test, fld == "body"))
        if isinstance(par, stop_at) and fld == "body":
            break
        node = par
    return conds


def bool_equivalent(conds, expected: ast.expr, atom_text=None) -> bool | None:
    """Is the conjunction ``conds`` (list of (expr, truth)) logically equal to ``expected`` as a
    boolean function of its atomic tests?  ``x is None`` / ``x is not None`` / ``not x`` share atoms.
    Returns None when there are too many atoms."""
    atoms: list[str] = []

    def lit(e):
        """-> (atom text, polarity)"""
        if isinstance(e, ast.Compare) and len(e.ops) == 1 and isinstance(e.comparators[0], ast.Constant) and e.comparators[0].value is None and isinstance(e.ops[0], (ast.Is, ast.IsNot)):
            return f"{norm(e.left)} is not None", isinstance(e.ops[0], ast.IsNot)
        if isinstance(e, ast.Compare) and len(e.ops) == 1 and isinstance(e.ops[0], (ast.Eq, ast.NotEq)):
            a, b = sorted((norm(e.left), norm(e.comparators[0])))
            return f"{a} == {b}", isinstance(e.ops[0], ast.Eq)
        # order comparisons: one atom per operand pair and strictness, `a < b` is `b > a`, `a <= b` is `not a > b`
        if isinstance(e, ast.Compare) and len(e.ops) == 1 and isinstance(e.ops[0], (ast.Lt, ast.Gt, ast.LtE, ast.GtE)):
            a, b = norm(e.left), norm(e.comparators[0])
            op = e.ops[0]
            if isinstance(op, ast.Gt):
                return f"{a} > {b}", True
            if isinstance(op, ast.Lt):
                return f"{b} > {a}", True
            if isinstance(op, ast.LtE):
                return f"{a} > {b}", False
            return f"{b} > {a}", False  # a >= b  ==  not (b > a)
        return norm(e), True

    def ev(e, env):
        if isinstance(e, ast.BoolOp):
            vals = [ev(v, env) for v in e.values]
            return all(vals) if isinstance(e.op, ast.And) else any(vals)
        if isinstance(e, ast.UnaryOp) and isinstance(e.op, ast.Not):
            return not ev(e.operand, env)
        a, pol = lit(e)
        return env[a] if pol else not env[a]

    def collect(e):
        if isinstance(e, ast.BoolOp):
            for v in e.values:
                collect(v)
        elif isinstance(e, ast.UnaryOp) and isinstance(e.op, ast.Not):
            collect(e.operand)
        else:
            a, _ = lit(e)
            if a not in atoms:
                atoms.append(a)

    for e, _t in conds:
        collect(e)
    collect(expected)
    if len(atoms) > 10:
        return None
    import itertools

    for vals in itertools.product((False, True), repeat=len(atoms)):
        env = dict(zip(atoms, vals))
        got = all(ev(e, env) == t for e, t in conds)
        if got != ev(expected, env):
            return False
    return True

def canonical_returns(func: ast.FunctionDef) -> ast.FunctionDef:
    """Value-level normal form of a small loop-free function: local temporaries are substituted into
    their uses, code after an `if` is pushed into both arms, so that every path ends in a `return`
    (or raise) whose expression is written in terms of parameters and attributes only.  Statements
    with effects (attribute / subscript stores, bare calls) are kept in place."""
    import copy as _copy

    def subst(e, env):
        class Sub(ast.NodeTransformer):
            def visit_Name(self, n):  # noqa: N802
                if isinstance(n.ctx, ast.Load) and n.id in env:
                    return _copy.deepcopy(env[n.id])
                return n

        return ast.fix_missing_locations(Sub().visit(_copy.deepcopy(e)))

    def stored_names(st):
        return {n.id for n in ast.walk(st) if isinstance(n, ast.Name) and isinstance(n.ctx, ast.Store)}

    def process(stmts, env):
        out = []
        for i, st in enumerate(stmts):
            if isinstance(st, ast.Assign) and len(st.targets) == 1 and isinstance(st.targets[0], ast.Name):
                env = dict(env)
                env[st.targets[0].id] = subst(st.value, env)
                continue
            if isinstance(st, ast.Assign) and len(st.targets) == 1 and isinstance(st.targets[0], ast.Tuple) and isinstance(st.value, ast.Tuple) and len(st.targets[0].elts) == len(st.value.elts) and all(isinstance(x, ast.Name) for x in st.targets[0].elts):
                vals = [subst(v, env) for v in st.value.elts]
                env = dict(env)
                for x, v in zip(st.targets[0].elts, vals):
                    env[x.id] = v
                continue
            if isinstance(st, ast.AugAssign) and isinstance(st.target, ast.Name) and st.target.id in env:
                env = dict(env)
                env[st.target.id] = ast.BinOp(left=_copy.deepcopy(env[st.target.id]), op=st.op, right=subst(st.value, env))
                continue
            if isinstance(st, ast.If):
                rest = list(stmts[i + 1 :])
                body = process(list(st.body) + rest, dict(env))
                orelse = process(list(st.orelse) + rest, dict(env))
                out.append(ast.copy_location(ast.If(test=subst(st.test, env), body=body or [ast.Pass()], orelse=orelse), st))
                return out
            if isinstance(st, ast.Return) and isinstance(st.value, ast.IfExp):
                # `return a if c else b` is `if c: return a` / `else: return b`
                v = subst(st.value, env)
                arm_t = process([ast.copy_location(ast.Return(value=v.body), st)], {})
                arm_f = process([ast.copy_location(ast.Return(value=v.orelse), st)], {})
                out.append(ast.copy_location(ast.If(test=v.test, body=arm_t, orelse=arm_f), st))
                return out
            if isinstance(st, ast.Return):
                out.append(ast.copy_location(ast.Return(value=subst(st.value, env) if st.value is not None else None), st))
                return out
            if isinstance(st, ast.Raise):
                out.append(st)
                return out
            if isinstance(st, ast.Try) and not st.finalbody and not any(isinstance(n, (ast.Return,)) for h in st.handlers for n in ast.walk(h)) and all(isinstance(h.body[-1], ast.Raise) for h in st.handlers if h.body):
                # handlers only re-raise: the value flow is that of body + orelse
                inner = process(list(st.body) + list(st.orelse) + list(stmts[i + 1 :]), dict(env))
                out.extend(inner)
                return out
            # effectful / compound statement: keep, with known temporaries substituted; names it binds are no longer known
            kept = subst(st, env) if not isinstance(st, (ast.For, ast.While, ast.With, ast.Try)) else st
            out.append(kept)
            killed = stored_names(st)
            if killed:
                env = {k: v for k, v in env.items() if k not in killed}
        return out

    node = _copy.deepcopy(func)
    doc = [node.body[0]] if node.body and isinstance(node.body[0], ast.Expr) and isinstance(node.body[0].value, ast.Constant) and isinstance(node.body[0].value.value, str) else []
    node.body = doc + (process(node.body[len(doc):], {}) or [ast.Pass()])
    return ast.fix_missing_locations(node)

def expand_self_aliases(func: ast.FunctionDef) -> ast.FunctionDef:
    """``func`` with every local alias of a pure attribute chain on ``self`` (``system = self.system``,
    bound exactly once at the top level, the chain never stored to in the function, the name not
    shadowed by a nested parameter) replaced by the chain, and the binding removed.  Reading the
    attribute at each use instead of once is the same value under those conditions."""
    import copy as _copy

    def pure_chain(e):
        while isinstance(e, ast.Attribute):
            e = e.value
        return isinstance(e, ast.Name) and e.id == "self"

    defs = {k: v for k, v in single_assignment_locals(func).items() if isinstance(v, ast.Attribute) and pure_chain(v)}
    # assignment expressions binding such a chain, when they are the only binding of the name
    params = {a.arg for a in func.args.posonlyargs + func.args.args + func.args.kwonlyargs}
    store_counts: dict[str, int] = {}
    for n in ast.walk(func):
        if isinstance(n, ast.Name) and isinstance(n.ctx, ast.Store):
            store_counts[n.id] = store_counts.get(n.id, 0) + 1
    walrus = {}
    for n in ast.walk(func):
        if isinstance(n, ast.NamedExpr) and isinstance(n.value, ast.Attribute) and pure_chain(n.value) and store_counts.get(n.target.id) == 1 and n.target.id not in params:
            walrus[n.target.id] = n.value
    defs.update(walrus)
    if not defs:
        return func
    stored, shadow = set(), set()
    for n in ast.walk(func):
        tg = []
        if isinstance(n, ast.Assign):
            tg = n.targets
        elif isinstance(n, (ast.AugAssign, ast.AnnAssign)):
            tg = [n.target]
        elif isinstance(n, ast.Delete):
            tg = n.targets
        for t in tg:
            for x in ast.walk(t):
                if isinstance(x, ast.Attribute) and pure_chain(x):
                    stored.add(norm(x))
        if isinstance(n, ast.Call) and isinstance(n.func, ast.Name) and n.func.id in ("setattr", "delattr"):
            stored.add("*")
        if isinstance(n, (ast.FunctionDef, ast.Lambda)) and n is not func:
            a = n.args
            shadow |= {x.arg for x in a.posonlyargs + a.args + a.kwonlyargs} | ({a.vararg.arg} if a.vararg else set()) | ({a.kwarg.arg} if a.kwarg else set())
    ok = {}
    for name, chain in defs.items():
        txt = norm(chain)
        if "*" in stored or name in shadow or any(txt == st or txt.startswith(st + ".") or st.startswith(txt + ".") for st in stored):
            continue
        ok[name] = chain
    if not ok:
        return func

    class Sub(ast.NodeTransformer):
        def visit_Name(self, n):  # noqa: N802
            if isinstance(n.ctx, ast.Load) and n.id in ok:
                return ast.copy_location(_copy.deepcopy(ok[n.id]), n)
            return n

        def visit_Assign(self, n):  # noqa: N802
            if len(n.targets) == 1 and isinstance(n.targets[0], ast.Name) and n.targets[0].id in ok:
                return None
            return self.generic_visit(n)

        def visit_NamedExpr(self, n):  # noqa: N802
            if n.target.id in ok and n.target.id in walrus:
                return ast.copy_location(_copy.deepcopy(ok[n.target.id]), n)
            return self.generic_visit(n)

    new = Sub().visit(_copy.deepcopy(func))
    if not new.body:
        new.body = [ast.Pass()]
    return ast.fix_missing_locations(new)


def unroll_method_tuple_loops(func: ast.FunctionDef) -> ast.FunctionDef:
    """``for f in (self.a, self.b, ...): <body>`` (the tuple given literally or through a local bound
    once to the literal; elements pure attribute chains on ``self``; no break / continue / else; the
    loop variable not read after the loop) replaced by the bodies in order with ``f`` substituted.
    Dispatching the same statements through a loop over bound methods is the same computation."""
    import copy as _copy

    def pure_chain(e):
        while isinstance(e, ast.Attribute):
            e = e.value
        return isinstance(e, ast.Name) and e.id == "self"

    defs = single_assignment_locals(func)
    changed = False
    used_tables = set()

    def items_of(it):
        if isinstance(it, ast.Name) and it.id in defs:
            used_tables.add(it.id)
            it = defs[it.id]
        if isinstance(it, (ast.Tuple, ast.List)) and it.elts and all(isinstance(e, ast.Attribute) and pure_chain(e) for e in it.elts):
            return it.elts
        return None

    def rewrite(stmts, after_names):
        nonlocal changed
        out = []
        for i, st in enumerate(stmts):
            for fld in ("body", "orelse", "finalbody"):
                if isinstance(getattr(st, fld, None), list) and not isinstance(st, (ast.FunctionDef, ast.ClassDef)):
                    setattr(st, fld, rewrite(getattr(st, fld), after_names))
            if isinstance(st, ast.Try):
                for h in st.handlers:
                    h.body = rewrite(h.body, after_names)
            if isinstance(st, ast.For) and not st.orelse and isinstance(st.target, ast.Name) and not any(isinstance(n, (ast.Break, ast.Continue)) for n in ast.walk(st)):
                before = set(used_tables)
                items = items_of(st.iter)
                later = {n.id for x in stmts[i + 1 :] for n in ast.walk(x) if isinstance(n, ast.Name) and isinstance(n.ctx, ast.Load)} | after_names
                rebinds = any(isinstance(n, ast.Name) and n.id == st.target.id and isinstance(n.ctx, ast.Store) for b in st.body for n in ast.walk(b))
                if items is not None and st.target.id not in later and not rebinds:
                    for it in items:
                        class Sub(ast.NodeTransformer):
                            def visit_Name(self, n, it=it):  # noqa: N802
                                if isinstance(n.ctx, ast.Load) and n.id == st.target.id:
                                    return ast.copy_location(_copy.deepcopy(it), n)
                                return n

                        for b in st.body:
                            nb = Sub().visit(_copy.deepcopy(b))
                            for n in ast.walk(nb):
                                if hasattr(n, "lineno"):
                                    n.lineno = st.lineno
                                    n.end_lineno = st.lineno
                            out.append(nb)
                    changed = True
                    continue
                used_tables.clear()
                used_tables.update(before)
            out.append(st)
        return out

    new = _copy.deepcopy(func)
    new.body = rewrite(new.body, set())
    if not changed:
        return func
    # drop the table bindings that are no longer read
    loads = {n.id for n in ast.walk(new) if isinstance(n, ast.Name) and isinstance(n.ctx, ast.Load)}
    new.body = [st for st in new.body if not (isinstance(st, ast.Assign) and len(st.targets) == 1 and isinstance(st.targets[0], ast.Name) and st.targets[0].id in used_tables and st.targets[0].id not in loads)]
    return ast.fix_missing_locations(new)


_REDUCE_OPS = {"operator.matmul": ast.MatMult, "operator.add": ast.Add, "operator.mul": ast.Mult, "matmul": ast.MatMult, "add": ast.Add, "mul": ast.Mult, "operator.sub": ast.Sub}


def desugar_reduce(func: ast.FunctionDef) -> ast.FunctionDef:
    """``return reduce(operator.OP, seq, init)`` / ``x = reduce(operator.OP, seq, init)`` written as the
    accumulation loop it abbreviates (``acc = init; for item in seq: acc = acc OP item``)."""
    import copy as _copy

    changed = False

    def match(e):
        if isinstance(e, ast.Call) and norm(e.func) in ("reduce", "functools.reduce") and len(e.args) == 3 and not e.keywords and norm(e.args[0]) in _REDUCE_OPS:
            return _REDUCE_OPS[norm(e.args[0])], e.args[1], e.args[2]
        return None

    def rewrite(stmts):
        nonlocal changed
        out = []
        for st in stmts:
            for fld in ("body", "orelse", "finalbody"):
                if isinstance(getattr(st, fld, None), list) and not isinstance(st, (ast.FunctionDef, ast.ClassDef)):
                    setattr(st, fld, rewrite(getattr(st, fld)))
            m = None
            if isinstance(st, ast.Return) and st.value is not None:
                m = match(st.value)
            elif isinstance(st, ast.Assign) and len(st.targets) == 1 and isinstance(st.targets[0], ast.Name):
                m = match(st.value)
            if m is None:
                out.append(st)
                continue
            op, seq, init = m
            acc = st.targets[0].id if isinstance(st, ast.Assign) else "_reduce_acc"
            item = "_reduce_item"
            new = [
                ast.Assign(targets=[ast.Name(id=acc, ctx=ast.Store())], value=init),
                ast.For(target=ast.Name(id=item, ctx=ast.Store()), iter=seq, body=[ast.Assign(targets=[ast.Name(id=acc, ctx=ast.Store())], value=ast.BinOp(left=ast.Name(id=acc, ctx=ast.Load()), op=op(), right=ast.Name(id=item, ctx=ast.Load())))], orelse=[]),
            ]
            if isinstance(st, ast.Return):
                new.append(ast.Return(value=ast.Name(id=acc, ctx=ast.Load())))
            for x in new:
                ast.copy_location(x, st)
                for n in ast.walk(x):
                    if not hasattr(n, "lineno"):
                        ast.copy_location(n, st)
            out.extend(ast.fix_missing_locations(x) for x in new)
            changed = True
        return out

    new = _copy.deepcopy(func)
    new.body = rewrite(new.body)
    return new if changed else func


def _subst_exception_tuples(func: ast.FunctionDef, table: dict) -> ast.FunctionDef:
    """``except NAME:`` with NAME a module-level constant tuple of classes -> ``except (A, B):``."""
    import copy as _copy

    if not table or not any(isinstance(n, ast.ExceptHandler) and isinstance(n.type, ast.Name) and n.type.id in table for n in ast.walk(func)):
        return func
    # the name must not be re-bound locally
    if any(isinstance(n, ast.Name) and isinstance(n.ctx, ast.Store) and n.id in table for n in ast.walk(func)):
        return func
    new = _copy.deepcopy(func)
    for n in ast.walk(new):
        if isinstance(n, ast.ExceptHandler) and isinstance(n.type, ast.Name) and n.type.id in table:
            n.type = ast.copy_location(_copy.deepcopy(table[n.type.id]), n.type)
    return ast.fix_missing_locations(new)


def expand_named_conditions(func: ast.FunctionDef, keep=frozenset()) -> ast.FunctionDef:
    """A local bound exactly once to a boolean test (comparison / and / or / not over names, attributes
    and constants, no calls) whose operands are not re-bound between the binding and its uses in the
    same block is replaced by the test, and the binding removed: `first = i == 0; if first or c:` is
    `if i == 0 or c:`."""
    import copy as _copy

    store_counts: dict[str, int] = {}
    for n in ast.walk(func):
        if isinstance(n, ast.Name) and isinstance(n.ctx, ast.Store):
            store_counts[n.id] = store_counts.get(n.id, 0) + 1
    params = {a.arg for a in ast.walk(func) if isinstance(a, ast.arg)}

    def is_test(e):
        """a boolean test over names / attributes / constants, or any call-free arithmetic over names,
        attributes and constant-key subscripts (the extra conditions below cover what those read)"""
        if isinstance(e, (ast.Name, ast.Constant, ast.Attribute, ast.Tuple, ast.List, ast.Dict, ast.Set)):
            return False  # plain aliases / containers are handled elsewhere (identity matters for containers)
        pure = {"np.isnan", "np.isinf", "np.isfinite", "math.isnan", "math.isinf", "math.isfinite", "isnan", "isinf", "isfinite", "isinstance", "len", "abs", "callable", "hasattr"}
        return not any((isinstance(n, ast.Call) and norm(n.func) not in pure) or isinstance(n, (ast.NamedExpr, ast.Await, ast.Lambda, ast.Yield, ast.YieldFrom, ast.ListComp, ast.DictComp, ast.SetComp, ast.GeneratorExp, ast.List, ast.Dict, ast.Set, ast.Starred)) or (isinstance(n, ast.Subscript) and not isinstance(n.slice, ast.Constant)) for n in ast.walk(e))

    changed = False

    def rewrite(stmts):
        nonlocal changed
        stmts = list(stmts)
        i = 0
        while i < len(stmts):
            st = stmts[i]
            if isinstance(st, (ast.FunctionDef, ast.ClassDef)):
                i += 1
                continue
            if isinstance(st, ast.Assign) and len(st.targets) == 1 and isinstance(st.targets[0], ast.Name) and store_counts.get(st.targets[0].id) == 1 and st.targets[0].id not in params and st.targets[0].id not in keep and is_test(st.value):
                name = st.targets[0].id
                rest = stmts[i + 1 :]
                reads = {n.id for n in ast.walk(st.value) if isinstance(n, ast.Name)}
                attr_roots = {norm(n) for n in ast.walk(st.value) if isinstance(n, (ast.Attribute, ast.Subscript))}
                # an object read through an attribute / item may be changed by a call that receives it
                roots = set()
                for n in ast.walk(st.value):
                    if isinstance(n, (ast.Attribute, ast.Subscript)):
                        b = n
                        while isinstance(b, (ast.Attribute, ast.Subscript)):
                            b = b.value
                        if isinstance(b, ast.Name):
                            roots.add(b.id)
                last_use = max((j for j, x in enumerate(rest) if any(isinstance(n, ast.Name) and n.id == name for n in ast.walk(x))), default=-1)
                handed = any(isinstance(c, ast.Call) and any(isinstance(n, ast.Name) and n.id in roots for a in list(c.args) + [k.value for k in c.keywords] + [c.func] for n in ast.walk(a)) for x in rest[:last_use] for c in ast.walk(x))
                rebound = handed or any(isinstance(n, ast.Subscript) and isinstance(n.ctx, (ast.Store, ast.Del)) and (norm(n) in attr_roots or norm(n.value) in {norm(a.value) for a in ast.walk(st.value) if isinstance(a, ast.Subscript)}) for x in rest for n in ast.walk(x)) or any(isinstance(n, ast.Name) and isinstance(n.ctx, ast.Store) and n.id in reads for x in rest for n in ast.walk(x))
                attr_store = any(isinstance(n, ast.Attribute) and isinstance(n.ctx, ast.Store) and norm(n) in attr_roots for x in rest for n in ast.walk(x))
                loads_rest = sum(1 for x in rest for n in ast.walk(x) if isinstance(n, ast.Name) and n.id == name and isinstance(n.ctx, ast.Load))
                loads_all = sum(1 for n in ast.walk(func) if isinstance(n, ast.Name) and n.id == name and isinstance(n.ctx, ast.Load))
                callee_use = any(isinstance(c, ast.Call) and isinstance(c.func, ast.Name) and c.func.id == name for x in rest for c in ast.walk(x))
                if not rebound and not attr_store and loads_rest == loads_all and loads_all > 0 and not callee_use:
                    val = st.value

                    class Sub(ast.NodeTransformer):
                        def visit_Name(self, n, name=name, val=val):  # noqa: N802
                            if n.id == name and isinstance(n.ctx, ast.Load):
                                return ast.copy_location(_copy.deepcopy(val), n)
                            return n

                    stmts = stmts[:i] + [Sub().visit(x) for x in rest]
                    changed = True
                    continue
            for fld in ("body", "orelse", "finalbody"):
                if isinstance(getattr(st, fld, None), list):
                    setattr(st, fld, rewrite(getattr(st, fld)))
            if isinstance(st, ast.Try):
                for h in st.handlers:
                    h.body = rewrite(h.body)
            i += 1
        return stmts

    new = _copy.deepcopy(func)
    new.body = rewrite(new.body)
    return ast.fix_missing_locations(new) if changed else func


def dict_update_to_loop(func: ast.FunctionDef) -> ast.FunctionDef:
    """``d.update({k: v for t in it [if c]})`` as a statement (one generator)  ->
    ``for t in it: [if c:] d[k] = v`` - the same stores in the same order."""
    import copy as _copy

    changed = False

    def rewrite(stmts):
        nonlocal changed
        out = []
        for st in stmts:
            if isinstance(st, (ast.FunctionDef, ast.ClassDef)):
                out.append(st)
                continue
            for fld in ("body", "orelse", "finalbody"):
                if isinstance(getattr(st, fld, None), list):
                    setattr(st, fld, rewrite(getattr(st, fld)))
            if isinstance(st, ast.Try):
                for h in st.handlers:
                    h.body = rewrite(h.body)
            c = st.value if isinstance(st, ast.Expr) else None
            if isinstance(c, ast.Call) and isinstance(c.func, ast.Attribute) and c.func.attr == "update" and isinstance(c.func.value, ast.Name) and len(c.args) == 1 and not c.keywords and isinstance(c.args[0], ast.DictComp) and len(c.args[0].generators) == 1 and not c.args[0].generators[0].is_async:
                dc = c.args[0]
                g = dc.generators[0]
                store = ast.Assign(targets=[ast.Subscript(value=ast.Name(id=c.func.value.id, ctx=ast.Load()), slice=dc.key, ctx=ast.Store())], value=dc.value)
                body = [store]
                for cond in reversed(g.ifs):
                    body = [ast.If(test=cond, body=body, orelse=[])]
                tgt = _copy.deepcopy(g.target)
                for n in ast.walk(tgt):
                    if isinstance(n, (ast.Name, ast.Tuple, ast.List, ast.Starred)):
                        n.ctx = ast.Store()
                loop = ast.For(target=tgt, iter=g.iter, body=body, orelse=[])
                for n in ast.walk(loop):
                    ast.copy_location(n, st)
                out.append(ast.fix_missing_locations(loop))
                changed = True
                continue
            out.append(st)
        return out

    new = _copy.deepcopy(func)
    new.body = rewrite(new.body)
    return new if changed else func


def _blocks(func):
    """Every statement list of the function (not of nested functions / classes)."""
    out = []

    def visit(stmts):
        out.append(stmts)
        for st in stmts:
            if isinstance(st, (ast.FunctionDef, ast.AsyncFunctionDef, ast.ClassDef)):
                continue
            for fld in ("body", "orelse", "finalbody"):
                if isinstance(getattr(st, fld, None), list):
                    visit(getattr(st, fld))
            if isinstance(st, ast.Try):
                for h in st.handlers:
                    visit(h.body)

    visit(func.body)
    return out


def _store_counts(func):
    counts: dict[str, int] = {}
    for n in ast.walk(func):
        if isinstance(n, ast.Name) and isinstance(n.ctx, ast.Store):
            counts[n.id] = counts.get(n.id, 0) + 1
    return counts


def expand_param_aliases(func: ast.FunctionDef, keep=frozenset()) -> ast.FunctionDef:
    """A new local (not in ``keep``) bound once to a pure attribute chain rooted at a parameter that is
    never re-bound (``pos = chain_state.pos``) is replaced by the chain when nothing in the function
    stores to the chain or a prefix of it and no call between the binding and the last use receives
    the root object (as receiver or argument) - the only ways the attribute could change in between."""
    import copy as _copy

    counts = _store_counts(func)
    params = {a.arg for a in func.args.posonlyargs + func.args.args + func.args.kwonlyargs} - {"self", "cls"}
    params = {p for p in params if counts.get(p, 0) == 0}
    # a local bound exactly once is as stable a root as a parameter
    params |= {n for n, c in counts.items() if c == 1}
    if not params:
        return func

    def root_of(e):
        while isinstance(e, ast.Attribute):
            e = e.value
        return e.id if isinstance(e, ast.Name) else None

    stored_attrs = {norm(n) for n in ast.walk(func) if isinstance(n, ast.Attribute) and isinstance(n.ctx, (ast.Store, ast.Del))}
    stored_attrs |= {norm(n.value) for n in ast.walk(func) if isinstance(n, ast.Subscript) and isinstance(n.ctx, (ast.Store, ast.Del)) and isinstance(n.value, ast.Attribute)}
    changed = False
    new = _copy.deepcopy(func)
    for block in _blocks(new):
        i = 0
        while i < len(block):
            st = block[i]
            ok = isinstance(st, ast.Assign) and len(st.targets) == 1 and isinstance(st.targets[0], ast.Name) and isinstance(st.value, ast.Attribute) and root_of(st.value) in params
            if ok:
                name, chain = st.targets[0].id, st.value
                txt, root = norm(chain), root_of(chain)
                ok = name not in keep and counts.get(name) == 1 and not any(txt == a or txt.startswith(a + ".") or a.startswith(txt + ".") for a in stored_attrs)
            if ok:
                rest = block[i + 1 :]
                uses = [j for j, x in enumerate(rest) if any(isinstance(n, ast.Name) and n.id == name for n in ast.walk(x))]
                all_loads = sum(1 for n in ast.walk(new) if isinstance(n, ast.Name) and n.id == name and isinstance(n.ctx, ast.Load))
                in_rest = sum(1 for x in rest for n in ast.walk(x) if isinstance(n, ast.Name) and n.id == name and isinstance(n.ctx, ast.Load))
                ok = bool(uses) and all_loads == in_rest
                if ok:
                    # calls handed the root object before the last use (through anything but the alias)
                    for x in rest[: uses[-1]]:
                        for c in ast.walk(x):
                            if isinstance(c, ast.Call) and any(isinstance(n, ast.Name) and n.id == root for a in list(c.args) + [k.value for k in c.keywords] + [c.func] for n in ast.walk(a)):
                                ok = False
                    # a use inside a nested function runs later: not handled
                    if any(isinstance(d, (ast.FunctionDef, ast.Lambda)) and any(isinstance(n, ast.Name) and n.id == name for n in ast.walk(d)) for x in rest for d in ast.walk(x)):
                        ok = False
            if ok:
                class Sub(ast.NodeTransformer):
                    def visit_Name(self, n, name=name, chain=chain):  # noqa: N802
                        if n.id == name and isinstance(n.ctx, ast.Load):
                            return ast.copy_location(_copy.deepcopy(chain), n)
                        return n

                block[i:] = [Sub().visit(x) for x in rest]
                changed = True
                continue
            i += 1
    return ast.fix_missing_locations(new) if changed else func


def fold_new_loop_built(func: ast.FunctionDef, keep=frozenset()) -> ast.FunctionDef:
    """``x = []`` / ``x = {}`` followed (in the same block) by the single loop that fills it, for a new
    local ``x`` (not in ``keep``): replaced by ``x = <comprehension>`` (see loops_to_comprehensions)."""
    import copy as _copy

    changed = False
    new = _copy.deepcopy(func)
    for block in _blocks(new):
        built = loops_to_comprehensions(block)
        for name, comp in built.items():
            if name in keep:
                continue
            idx = next(i for i, st in enumerate(block) if isinstance(st, ast.Assign) and len(st.targets) == 1 and isinstance(st.targets[0], ast.Name) and st.targets[0].id == name)
            loops = [j for j in range(idx + 1, len(block)) if isinstance(block[j], ast.For) and any(isinstance(n, ast.Name) and n.id == name for n in ast.walk(block[j]))]
            if len(loops) != 1:
                continue
            j = loops[0]
            # nothing between the initialisation and the loop may read the collection or re-bind what the loop reads
            between = block[idx + 1 : j]
            reads = {n.id for n in ast.walk(block[j]) if isinstance(n, ast.Name) and isinstance(n.ctx, ast.Load)}
            if any(isinstance(n, ast.Name) and (n.id == name or (isinstance(n.ctx, ast.Store) and n.id in reads)) for x in between for n in ast.walk(x)):
                continue
            # the loop variables must not be read afterwards (a comprehension does not leak them)
            lv = {n.id for n in ast.walk(block[j].target) if isinstance(n, ast.Name)}
            if any(isinstance(n, ast.Name) and n.id in lv and isinstance(n.ctx, ast.Load) for x in block[j + 1 :] for n in ast.walk(x)):
                continue
            block[idx] = ast.copy_location(ast.Assign(targets=[ast.Name(id=name, ctx=ast.Store())], value=comp), block[j])
            moved = block.pop(idx)
            block.insert(j - 1, moved)
            del block[j]
            changed = True
    return ast.fix_missing_locations(new) if changed else func


def inline_new_single_use_locals(func: ast.FunctionDef, keep=frozenset()) -> ast.FunctionDef:
    """A new local (not in ``keep``) bound once and read exactly once, in the statement that directly
    follows its binding, at a position that no other call of that statement is evaluated before, is
    substituted there: ``t = f(a); return g(t)`` is ``return g(f(a))`` (same evaluation order)."""
    import copy as _copy

    changed = True
    any_change = False
    new = _copy.deepcopy(func)
    params = {a.arg for a in ast.walk(new) if isinstance(a, ast.arg)}
    guard = 0
    while changed and guard < 50:
        guard += 1
        changed = False
        counts = _store_counts(new)
        loads: dict[str, int] = {}
        for n in ast.walk(new):
            if isinstance(n, ast.Name) and isinstance(n.ctx, ast.Load):
                loads[n.id] = loads.get(n.id, 0) + 1
        for block in _blocks(new):
            for i in range(len(block) - 1):
                st = block[i]
                if not (isinstance(st, ast.Assign) and len(st.targets) == 1 and isinstance(st.targets[0], ast.Name)):
                    continue
                # statements that bind a constant to another name may sit between the binding and its use
                j = i + 1
                while j < len(block) - 1 and isinstance(block[j], ast.Assign) and len(block[j].targets) == 1 and isinstance(block[j].targets[0], ast.Name) and isinstance(block[j].value, ast.Constant) and block[j].targets[0].id != st.targets[0].id and not any(isinstance(n, ast.Name) and n.id == block[j].targets[0].id for n in ast.walk(st.value)):
                    j += 1
                nxt = block[j]
                name = st.targets[0].id
                if name in keep or name in params or counts.get(name) != 1 or loads.get(name) != 1:
                    continue
                if isinstance(st.value, (ast.Yield, ast.YieldFrom, ast.Await, ast.NamedExpr)):
                    continue
                # where in the next statement is it read?  only the parts evaluated once, first
                if isinstance(nxt, (ast.For, ast.While, ast.If, ast.With, ast.Try, ast.FunctionDef, ast.ClassDef, ast.Match)):
                    head = nxt.iter if isinstance(nxt, ast.For) else nxt.test if isinstance(nxt, ast.If) else None
                    if head is None:
                        continue
                    scope = head
                else:
                    scope = nxt
                order = []
                parents = {}

                def visit(n, order=order, parents=parents):
                    order.append(n)
                    for ch in ast.iter_child_nodes(n):
                        parents[id(ch)] = n
                        visit(ch)

                visit(scope)
                use = next((n for n in order if isinstance(n, ast.Name) and n.id == name and isinstance(n.ctx, ast.Load)), None)
                if use is None:
                    continue
                anc = set()
                cur = use
                while id(cur) in parents:
                    cur = parents[id(cur)]
                    anc.add(id(cur))
                # not inside a lambda / comprehension element (evaluated later or repeatedly); an IfExp / BoolOp arm is conditional
                bad = False
                cur = use
                while id(cur) in parents:
                    par = parents[id(cur)]
                    if isinstance(par, (ast.Lambda, ast.GeneratorExp)):
                        bad = True
                    if isinstance(par, (ast.ListComp, ast.SetComp, ast.DictComp)) and cur is not par.generators[0].iter and not (isinstance(cur, ast.comprehension) and cur is par.generators[0]):
                        bad = True
                    if isinstance(par, ast.comprehension) and cur is not par.iter:
                        bad = True
                    if isinstance(par, ast.IfExp) and cur is not par.test:
                        bad = True
                    if isinstance(par, ast.BoolOp) and cur is not par.values[0]:
                        bad = True
                    cur = par
                # a value that is called (`cls = A if c else B; cls(x)`) stays a named callee
                par_u = parents.get(id(use))
                if isinstance(par_u, ast.Call) and par_u.func is use and not isinstance(st.value, (ast.Name, ast.Attribute)):
                    bad = True
                if bad:
                    continue
                before = order[: order.index(use)]
                pure_calls = {"type", "len", "isinstance", "id", "tuple", "list", "dict", "set", "range", "min", "max", "abs", "float", "int", "str", "bool", "zip", "enumerate", "getattr", "hasattr"}

                def effectful(n):
                    return isinstance(n, (ast.Await, ast.NamedExpr)) or (isinstance(n, ast.Call) and not (isinstance(n.func, ast.Name) and n.func.id in pure_calls))

                if any(isinstance(n, (ast.Call, ast.Await, ast.NamedExpr, ast.Subscript, ast.Attribute)) and id(n) not in anc for n in before):
                    # something else is evaluated first: only a side-effect-free binding may move past it
                    if any(isinstance(n, (ast.Call, ast.Await, ast.NamedExpr)) for n in ast.walk(st.value)) and any(effectful(n) and id(n) not in anc for n in before):
                        continue
                val = st.value

                class Sub(ast.NodeTransformer):
                    def visit_Name(self, n, use=use, val=val):  # noqa: N802
                        if n is use:
                            return ast.copy_location(_copy.deepcopy(val), n)
                        return n

                if scope is nxt:
                    block[j] = Sub().visit(nxt)
                elif isinstance(nxt, ast.For):
                    nxt.iter = Sub().visit(nxt.iter)
                else:
                    nxt.test = Sub().visit(nxt.test)
                del block[i]
                changed = any_change = True
                break
            if changed:
                break
    return ast.fix_missing_locations(new) if any_change else func


def guard_continue_to_else(func: ast.FunctionDef) -> ast.FunctionDef:
    """In a loop body, ``if c: A; continue`` followed by ``B`` is ``if c: A else: B``."""
    import copy as _copy

    changed = False
    new = _copy.deepcopy(func)

    def fix(body):
        nonlocal changed
        for k, st in enumerate(body):
            if isinstance(st, ast.If) and not st.orelse and st.body and isinstance(st.body[-1], ast.Continue) and k + 1 < len(body) and not any(isinstance(n, ast.Continue) for x in st.body[:-1] for n in ast.walk(x)):
                rest = body[k + 1 :]
                st.body = st.body[:-1] or [ast.copy_location(ast.Pass(), st)]
                st.orelse = fix(rest)
                changed = True
                return body[: k + 1]
        return body

    for n in ast.walk(new):
        if isinstance(n, (ast.For, ast.While)):
            n.body = fix(n.body)
    return ast.fix_missing_locations(new) if changed else func


def desugar_operator_calls(func: ast.FunctionDef) -> ast.FunctionDef:
    """``operator.lt(a, b)`` -> ``a < b`` (likewise le / gt / ge / eq / ne / add / sub / mul / truediv / neg /
    not_): the functions of the `operator` module are the operators, by definition."""
    import copy as _copy

    cmp_ops = {"lt": ast.Lt, "le": ast.LtE, "gt": ast.Gt, "ge": ast.GtE, "eq": ast.Eq, "ne": ast.NotEq, "is_": ast.Is, "is_not": ast.IsNot}
    bin_ops = {"add": ast.Add, "sub": ast.Sub, "mul": ast.Mult, "truediv": ast.Div, "floordiv": ast.FloorDiv, "mod": ast.Mod, "pow": ast.Pow, "matmul": ast.MatMult}

    def opname(n):
        if isinstance(n, ast.Call) and isinstance(n.func, ast.Attribute) and isinstance(n.func.value, ast.Name) and n.func.value.id in ("operator", "op") and not n.keywords:
            return n.func.attr
        return None

    if not any(opname(n) for n in ast.walk(func)):
        return func

    class T(ast.NodeTransformer):
        def visit_Call(self, n):  # noqa: N802
            self.generic_visit(n)
            nm = opname(n)
            if nm in cmp_ops and len(n.args) == 2:
                return ast.copy_location(ast.Compare(left=n.args[0], ops=[cmp_ops[nm]()], comparators=[n.args[1]]), n)
            if nm in bin_ops and len(n.args) == 2:
                return ast.copy_location(ast.BinOp(left=n.args[0], op=bin_ops[nm](), right=n.args[1]), n)
            if nm == "neg" and len(n.args) == 1:
                return ast.copy_location(ast.UnaryOp(op=ast.USub(), operand=n.args[0]), n)
            if nm == "not_" and len(n.args) == 1:
                return ast.copy_location(ast.UnaryOp(op=ast.Not(), operand=n.args[0]), n)
            return n

    return ast.fix_missing_locations(T().visit(_copy.deepcopy(func)))


def canon_ifexp_not(func: ast.FunctionDef) -> ast.FunctionDef:
    """``a if not c else b``  ->  ``b if c else a``."""
    import copy as _copy

    if not any(isinstance(n, ast.IfExp) and isinstance(n.test, ast.UnaryOp) and isinstance(n.test.op, ast.Not) for n in ast.walk(func)):
        return func

    class T(ast.NodeTransformer):
        def visit_IfExp(self, n):  # noqa: N802
            self.generic_visit(n)
            if isinstance(n.test, ast.UnaryOp) and isinstance(n.test.op, ast.Not):
                return ast.copy_location(ast.IfExp(test=n.test.operand, body=n.orelse, orelse=n.body), n)
            return n

    return ast.fix_missing_locations(T().visit(_copy.deepcopy(func)))


def expand_starred_tuple_args(func: ast.FunctionDef, keep=frozenset()) -> ast.FunctionDef:
    """``t = (a, b, c)`` (a new local bound once to a tuple of names / attributes / constants that are
    not re-bound afterwards) used only as ``*t`` in calls: the elements are written out at the calls."""
    import copy as _copy

    counts = _store_counts(func)
    defs = {}
    for block in _blocks(func):
        for st in block:
            if isinstance(st, ast.Assign) and len(st.targets) == 1 and isinstance(st.targets[0], ast.Name) and isinstance(st.value, ast.Tuple) and all(not any(isinstance(x, (ast.Call, ast.NamedExpr, ast.Await, ast.Lambda, ast.Starred, ast.ListComp, ast.GeneratorExp, ast.DictComp, ast.SetComp)) for x in ast.walk(e)) for e in st.value.elts):
                name = st.targets[0].id
                if name in keep or counts.get(name) != 1:
                    continue
                loads = [n for n in ast.walk(func) if isinstance(n, ast.Name) and n.id == name and isinstance(n.ctx, ast.Load)]
                starred = [n for n in ast.walk(func) if isinstance(n, ast.Starred) and isinstance(n.value, ast.Name) and n.value.id == name]
                in_calls = [c for c in ast.walk(func) if isinstance(c, ast.Call) and any(a in starred for a in c.args)]
                if not loads or len(loads) != len(starred) or sum(sum(1 for a in c.args if a in starred) for c in in_calls) != len(starred):
                    continue
                elems = {n.id for e in st.value.elts for n in ast.walk(e) if isinstance(n, ast.Name)}
                if any(counts.get(x, 0) > 0 and x not in {a.arg for a in ast.walk(func) if isinstance(a, ast.arg)} and counts.get(x, 0) > 1 for x in elems):
                    continue
                defs[name] = st.value
    if not defs:
        return func

    class T(ast.NodeTransformer):
        def visit_Call(self, c):  # noqa: N802
            self.generic_visit(c)
            args = []
            for a in c.args:
                if isinstance(a, ast.Starred) and isinstance(a.value, ast.Name) and a.value.id in defs:
                    args.extend(_copy.deepcopy(e) for e in defs[a.value.id].elts)
                else:
                    args.append(a)
            c.args = args
            return c

        def visit_Assign(self, n):  # noqa: N802
            if len(n.targets) == 1 and isinstance(n.targets[0], ast.Name) and n.targets[0].id in defs:
                return None
            return self.generic_visit(n)

    return ast.fix_missing_locations(T().visit(_copy.deepcopy(func)))


def unroll_const_table_dispatch(func: ast.FunctionDef, tables: dict) -> ast.FunctionDef:
    """``for a, b in TABLE: if test(a): S(b); break`` over a module-level constant tuple of tuples
    (``tables``: name -> Tuple node) -> the if / elif chain it abbreviates (first match wins)."""
    import copy as _copy

    changed = False
    new = _copy.deepcopy(func)
    for block in _blocks(new):
        for k, st in enumerate(block):
            if not (isinstance(st, ast.For) and not st.orelse and isinstance(st.iter, ast.Name) and st.iter.id in tables and len(st.body) == 1 and isinstance(st.body[0], ast.If) and not st.body[0].orelse and st.body[0].body and isinstance(st.body[0].body[-1], ast.Break)):
                continue
            rows = tables[st.iter.id].elts
            tg = st.target.elts if isinstance(st.target, ast.Tuple) else [st.target]
            if not all(isinstance(t, ast.Name) for t in tg) or not all((isinstance(r, ast.Tuple) and len(r.elts) == len(tg)) or len(tg) == 1 for r in rows):
                continue
            inner = st.body[0]
            if any(isinstance(n, (ast.Break, ast.Continue)) for x in inner.body[:-1] for n in ast.walk(x)):
                continue
            chain = None
            for row in reversed(rows):
                vals = row.elts if isinstance(st.target, ast.Tuple) else [row]
                binds = {t.id: v for t, v in zip(tg, vals)}

                class Sub(ast.NodeTransformer):
                    def visit_Name(self, n, binds=binds):  # noqa: N802
                        if isinstance(n.ctx, ast.Load) and n.id in binds:
                            return ast.copy_location(_copy.deepcopy(binds[n.id]), n)
                        return n

                test = Sub().visit(_copy.deepcopy(inner.test))
                body = [Sub().visit(_copy.deepcopy(x)) for x in inner.body[:-1]] or [ast.Pass()]
                chain = ast.If(test=test, body=body, orelse=[chain] if chain is not None else [])
            if chain is None:
                continue
            for n in ast.walk(chain):
                ast.copy_location(n, st)
            block[k] = ast.fix_missing_locations(chain)
            changed = True
    return new if changed else func


def fold_sum_loops(func: ast.FunctionDef, keep=frozenset()) -> ast.FunctionDef:
    """``acc = 0`` ; ``for x in it: acc = acc + x`` (or ``acc += x``) for a new local ``acc`` -> ``acc = sum(it)``
    (the built-in performs exactly this left fold from 0)."""
    import copy as _copy

    changed = False
    new = _copy.deepcopy(func)
    for block in _blocks(new):
        i = 0
        while i < len(block) - 1:
            st, lp = block[i], block[i + 1]
            if (
                isinstance(st, ast.Assign) and len(st.targets) == 1 and isinstance(st.targets[0], ast.Name) and st.targets[0].id not in keep
                and isinstance(st.value, ast.Constant) and st.value.value == 0 and not isinstance(st.value.value, bool) and isinstance(st.value.value, int)
                and isinstance(lp, ast.For) and not lp.orelse and isinstance(lp.target, ast.Name) and len(lp.body) == 1
            ):
                acc, x, b = st.targets[0].id, lp.target.id, lp.body[0]
                ok = False
                if isinstance(b, ast.AugAssign) and isinstance(b.op, ast.Add) and norm(b.target) == acc and norm(b.value) == x:
                    ok = True
                if isinstance(b, ast.Assign) and len(b.targets) == 1 and norm(b.targets[0]) == acc and isinstance(b.value, ast.BinOp) and isinstance(b.value.op, ast.Add) and norm(b.value.left) == acc and norm(b.value.right) == x:
                    ok = True
                later_x = any(isinstance(n, ast.Name) and n.id == x and isinstance(n.ctx, ast.Load) for y in block[i + 2 :] for n in ast.walk(y))
                if ok and not later_x and not any(isinstance(n, ast.Name) and n.id == acc for n in ast.walk(lp.iter)):
                    call = ast.Call(func=ast.Name(id="sum", ctx=ast.Load()), args=[lp.iter], keywords=[])
                    block[i] = ast.fix_missing_locations(ast.copy_location(ast.Assign(targets=[ast.Name(id=acc, ctx=ast.Store())], value=call), lp))
                    for n in ast.walk(block[i]):
                        ast.copy_location(n, lp) if not hasattr(n, "lineno") else None
                    del block[i + 1]
                    changed = True
                    continue
            i += 1
    return ast.fix_missing_locations(new) if changed else func


def sink_tail_into_arms(func: ast.FunctionDef, keep=frozenset()) -> ast.FunctionDef:
    """``if c: x = A`` / ``else: x = B`` followed by a short tail that ends in ``return`` and reads the new
    local ``x``: the tail is duplicated into both arms (x renamed per arm), so that each arm is straight-line
    code with single-assignment locals - what the other normalisers and the evaluators expect."""
    import copy as _copy

    params = {a.arg for a in ast.walk(func) if isinstance(a, ast.arg)}
    counts = _store_counts(func)
    changed = False
    new = _copy.deepcopy(func)
    for block in _blocks(new):
        for i, st in enumerate(block):
            if not (isinstance(st, ast.If) and st.orelse):
                continue
            tail = block[i + 1 :]
            if not tail or len(tail) > 4 or not isinstance(tail[-1], ast.Return):
                continue
            if not all(isinstance(x, (ast.Assign, ast.AugAssign, ast.Expr, ast.Return)) for x in tail):
                continue
            arms = [st.body, st.orelse]
            if any(arm and isinstance(arm[-1], (ast.Return, ast.Raise, ast.Continue, ast.Break)) for arm in arms):
                continue

            def top_names(arm):
                out = {}
                for x in arm:
                    if isinstance(x, ast.Assign) and len(x.targets) == 1 and isinstance(x.targets[0], ast.Name):
                        out[x.targets[0].id] = out.get(x.targets[0].id, 0) + 1
                return out

            n0, n1 = top_names(arms[0]), top_names(arms[1])
            shared = {n for n in n0 if n in n1 and n0[n] == 1 and n1[n] == 1 and n not in keep and n not in params and counts.get(n) == 2}
            if not shared:
                continue
            loads_tail = {n.id for x in tail for n in ast.walk(x) if isinstance(n, ast.Name) and isinstance(n.ctx, ast.Load)}
            if not (shared & loads_tail):
                continue
            if any(isinstance(n, ast.Name) and isinstance(n.ctx, ast.Store) and n.id in shared for x in tail for n in ast.walk(x)):
                continue
            for k_, arm in enumerate(arms):
                ren = {n: f"{n}__{k_ + 1}" for n in shared}

                class Ren(ast.NodeTransformer):
                    def visit_Name(self, n, ren=ren):  # noqa: N802
                        if n.id in ren:
                            return ast.copy_location(ast.Name(id=ren[n.id], ctx=n.ctx), n)
                        return n

                arm[:] = [Ren().visit(x) for x in arm] + [Ren().visit(_copy.deepcopy(x)) for x in tail]
            del block[i + 1 :]
            changed = True
            break
    return ast.fix_missing_locations(new) if changed else func


def splat_literal_star_args(func: ast.FunctionDef) -> ast.FunctionDef:
    """``f(a, *(b, c))`` / ``f(a, *[b, c])`` -> ``f(a, b, c)``; ``f(**{"k": v})`` -> ``f(k=v)``."""
    import copy as _copy

    if not any(isinstance(n, ast.Starred) and isinstance(n.value, (ast.Tuple, ast.List)) for n in ast.walk(func)) and not any(isinstance(c, ast.Call) and any(k.arg is None and isinstance(k.value, ast.Dict) for k in c.keywords) for c in ast.walk(func)):
        return func

    class T(ast.NodeTransformer):
        def visit_Call(self, c):  # noqa: N802
            self.generic_visit(c)
            args = []
            for a in c.args:
                if isinstance(a, ast.Starred) and isinstance(a.value, (ast.Tuple, ast.List)) and not any(isinstance(e, ast.Starred) for e in a.value.elts):
                    args.extend(a.value.elts)
                else:
                    args.append(a)
            c.args = args
            kws = []
            for k in c.keywords:
                if k.arg is None and isinstance(k.value, ast.Dict) and all(isinstance(x, ast.Constant) and isinstance(x.value, str) and x.value.isidentifier() for x in k.value.keys):
                    kws.extend(ast.keyword(arg=x.value, value=v) for x, v in zip(k.value.keys, k.value.values))
                else:
                    kws.append(k)
            c.keywords = kws
            return c

    return ast.fix_missing_locations(T().visit(_copy.deepcopy(func)))


def merge_unpack_then_store(func: ast.FunctionDef, keep=frozenset()) -> ast.FunctionDef:
    """``a, b = E`` ; ``X.p = a`` ; ``X.q = b`` (new locals a, b, read nowhere else) -> ``X.p, X.q = E``."""
    import copy as _copy

    changed = False
    new = _copy.deepcopy(func)
    loads: dict[str, int] = {}
    for n in ast.walk(new):
        if isinstance(n, ast.Name) and isinstance(n.ctx, ast.Load):
            loads[n.id] = loads.get(n.id, 0) + 1
    counts = _store_counts(new)
    for block in _blocks(new):
        i = 0
        while i < len(block):
            st = block[i]
            if isinstance(st, ast.Assign) and len(st.targets) == 1 and isinstance(st.targets[0], ast.Tuple) and all(isinstance(x, ast.Name) for x in st.targets[0].elts):
                names = [x.id for x in st.targets[0].elts]
                k = len(names)
                stores = block[i + 1 : i + 1 + k]
                if (
                    len(stores) == k
                    and all(n not in keep and counts.get(n) == 1 and loads.get(n) == 1 for n in names)
                    and all(isinstance(x, ast.Assign) and len(x.targets) == 1 and isinstance(x.targets[0], (ast.Attribute, ast.Subscript)) and isinstance(x.value, ast.Name) and x.value.id == nm for x, nm in zip(stores, names))
                ):
                    merged = ast.Assign(targets=[ast.Tuple(elts=[x.targets[0] for x in stores], ctx=ast.Store())], value=st.value)
                    ast.copy_location(merged, st)
                    block[i : i + 1 + k] = [ast.fix_missing_locations(merged)]
                    changed = True
                    continue
            i += 1
    return new if changed else func


def merge_loop_target_unpack(func: ast.FunctionDef, keep=frozenset()) -> ast.FunctionDef:
    """``for x in it:`` whose body starts with ``a, b = x`` (new name x, read nowhere else) -> ``for a, b in it:``."""
    import copy as _copy

    changed = False
    new = _copy.deepcopy(func)
    loads: dict[str, int] = {}
    for n in ast.walk(new):
        if isinstance(n, ast.Name) and isinstance(n.ctx, ast.Load):
            loads[n.id] = loads.get(n.id, 0) + 1
    counts = _store_counts(new)
    def outer_loads(name):
        # reads of the function's own variable `name`: a lambda parameter of the same name is another variable
        total = 0
        stack = [new]
        while stack:
            n = stack.pop()
            if isinstance(n, ast.Lambda) and any(a.arg == name for a in n.args.args):
                continue
            if isinstance(n, ast.Name) and isinstance(n.ctx, ast.Load) and n.id == name:
                total += 1
            stack.extend(ast.iter_child_nodes(n))
        return total

    for lp in ast.walk(new):
        if not (isinstance(lp, ast.For) and isinstance(lp.target, ast.Name) and lp.body):
            continue
        x = lp.target.id
        st = lp.body[0]
        if x in keep or counts.get(x) != 1 or outer_loads(x) != 1:
            continue
        if isinstance(st, ast.Assign) and len(st.targets) == 1 and isinstance(st.targets[0], ast.Tuple) and isinstance(st.value, ast.Name) and st.value.id == x and all(isinstance(e, ast.Name) for e in st.targets[0].elts) and len(lp.body) > 1:
            lp.target = ast.copy_location(ast.Tuple(elts=list(st.targets[0].elts), ctx=ast.Store()), lp.target)
            lp.body = lp.body[1:]
            changed = True
    return ast.fix_missing_locations(new) if changed else func


def raise_guard_first(func: ast.FunctionDef) -> ast.FunctionDef:
    """``if c: <normal path ending in return>`` followed by a tail that only builds a message and raises
    -> ``if not c: <tail>`` followed by the normal path (the usual guard-clause spelling)."""
    import copy as _copy

    changed = False
    new = _copy.deepcopy(func)
    for block in _blocks(new):
        for i, st in enumerate(block):
            if not (isinstance(st, ast.If) and not st.orelse and st.body and isinstance(st.body[-1], ast.Return)):
                continue
            tail = block[i + 1 :]
            if not tail or not isinstance(tail[-1], ast.Raise) or not all(isinstance(x, (ast.Assign, ast.Expr, ast.Raise)) for x in tail):
                continue
            if any(isinstance(n, (ast.Return,)) for x in st.body[:-1] for n in ast.walk(x)) and False:
                continue
            test = st.test.operand if isinstance(st.test, ast.UnaryOp) and isinstance(st.test.op, ast.Not) else None
            if test is None:
                t = st.test
                if isinstance(t, ast.Compare) and len(t.ops) == 1 and isinstance(t.ops[0], (ast.Is, ast.IsNot, ast.Eq, ast.NotEq, ast.Lt, ast.GtE, ast.Gt, ast.LtE, ast.In, ast.NotIn)):
                    flip = {ast.Is: ast.IsNot, ast.IsNot: ast.Is, ast.Eq: ast.NotEq, ast.NotEq: ast.Eq, ast.Lt: ast.GtE, ast.GtE: ast.Lt, ast.Gt: ast.LtE, ast.LtE: ast.Gt, ast.In: ast.NotIn, ast.NotIn: ast.In}
                    test = ast.Compare(left=t.left, ops=[flip[type(t.ops[0])]()], comparators=t.comparators)
                else:
                    test = ast.UnaryOp(op=ast.Not(), operand=t)
            guard = ast.copy_location(ast.If(test=test, body=list(tail), orelse=[]), st)
            block[i:] = [ast.fix_missing_locations(guard)] + list(st.body)
            changed = True
            break
    return ast.fix_missing_locations(new) if changed else func


def expand_defaulted_mappings(func: ast.FunctionDef, keep=frozenset()) -> ast.FunctionDef:
    """``m = {} if x is None else x`` (also ``x if x is not None else {}``) for a new local ``m`` that is only
    read through membership tests and item loads: ``k in m`` -> ``x is not None and k in x``, ``m[k]`` -> ``x[k]``
    (an item load on the empty default can only raise), and the binding is removed."""
    import copy as _copy

    counts = _store_counts(func)
    found = {}
    for block in _blocks(func):
        for st in block:
            if not (isinstance(st, ast.Assign) and len(st.targets) == 1 and isinstance(st.targets[0], ast.Name) and isinstance(st.value, ast.IfExp)):
                continue
            name, v = st.targets[0].id, st.value
            if name in keep or counts.get(name) != 1:
                continue
            t = v.test
            if not (isinstance(t, ast.Compare) and len(t.ops) == 1 and isinstance(t.ops[0], (ast.Is, ast.IsNot)) and isinstance(t.left, ast.Name) and isinstance(t.comparators[0], ast.Constant) and t.comparators[0].value is None):
                continue
            src = t.left.id
            none_arm, other = (v.body, v.orelse) if isinstance(t.ops[0], ast.Is) else (v.orelse, v.body)
            empty = (isinstance(none_arm, (ast.Dict, ast.Tuple, ast.List, ast.Set)) and not (none_arm.keys if isinstance(none_arm, ast.Dict) else none_arm.elts)) or (isinstance(none_arm, ast.Call) and norm(none_arm.func) in ("dict", "tuple", "list", "set", "frozenset") and not none_arm.args and not none_arm.keywords)
            if not empty or not (isinstance(other, ast.Name) and other.id == src) or counts.get(src, 0) > 0:
                continue
            found[name] = src
    if not found:
        return func
    # every use must be a membership test or an item load
    parents = {}
    for n in ast.walk(func):
        for ch in ast.iter_child_nodes(n):
            parents[id(ch)] = n
    for name in list(found):
        for n in ast.walk(func):
            if isinstance(n, ast.Name) and n.id == name and isinstance(n.ctx, ast.Load):
                par = parents.get(id(n))
                ok = (isinstance(par, ast.Compare) and len(par.ops) == 1 and isinstance(par.ops[0], (ast.In, ast.NotIn)) and par.comparators[0] is n) or (isinstance(par, ast.Subscript) and par.value is n and isinstance(par.ctx, ast.Load))
                if not ok:
                    found.pop(name, None)
                    break
    if not found:
        return func

    class T(ast.NodeTransformer):
        def visit_Compare(self, c):  # noqa: N802
            self.generic_visit(c)
            if len(c.ops) == 1 and isinstance(c.ops[0], (ast.In, ast.NotIn)) and isinstance(c.comparators[0], ast.Name) and c.comparators[0].id in found:
                src = found[c.comparators[0].id]
                member = ast.Compare(left=c.left, ops=[ast.In()], comparators=[ast.Name(id=src, ctx=ast.Load())])
                notnone = ast.Compare(left=ast.Name(id=src, ctx=ast.Load()), ops=[ast.IsNot()], comparators=[ast.Constant(value=None)])
                both = ast.BoolOp(op=ast.And(), values=[notnone, member])
                out = both if isinstance(c.ops[0], ast.In) else ast.UnaryOp(op=ast.Not(), operand=both)
                return ast.copy_location(out, c)
            return c

        def visit_Subscript(self, n):  # noqa: N802
            self.generic_visit(n)
            if isinstance(n.value, ast.Name) and n.value.id in found and isinstance(n.ctx, ast.Load):
                n.value = ast.copy_location(ast.Name(id=found[n.value.id], ctx=ast.Load()), n.value)
            return n

        def visit_Assign(self, n):  # noqa: N802
            if len(n.targets) == 1 and isinstance(n.targets[0], ast.Name) and n.targets[0].id in found:
                return None
            return self.generic_visit(n)

    return ast.fix_missing_locations(T().visit(_copy.deepcopy(func)))


def guard_return_to_else(func: ast.FunctionDef) -> ast.FunctionDef:
    """In a function whose returns are all bare (it returns None): ``if c: A; return`` followed by ``B`` at the
    top level of the body is ``if c: A`` / ``else: B``."""
    import copy as _copy

    if any(isinstance(n, (ast.Yield, ast.YieldFrom)) for n in ast.walk(func)):
        return func
    rets = [n for n in _walk_no_nested_defs(func) if isinstance(n, ast.Return)]
    valued = [n for n in rets if n.value is not None and not (isinstance(n.value, ast.Constant) and n.value.value is None)]
    tail = None
    if valued:
        # every return hands back the same side-effect-free expression (`return state, None`) and the body ends with it:
        # the early returns are then jumps to that common exit
        texts = {norm(n.value) for n in valued}
        last = func.body[-1] if func.body else None
        pure = all(isinstance(x, (ast.Name, ast.Constant, ast.Tuple, ast.Load, ast.Attribute)) for n in valued for x in ast.walk(n.value))
        if len(valued) != len(rets) or len(texts) != 1 or not pure or not (isinstance(last, ast.Return) and last in valued):
            return func
        names = {x.id for x in ast.walk(valued[0].value) if isinstance(x, ast.Name)}
        if any(isinstance(x, ast.Name) and isinstance(x.ctx, ast.Store) and x.id in names for x in ast.walk(func)):
            return func  # a name of the returned expression is re-bound somewhere: the exits are not interchangeable
        tail = last
    changed = False
    new = _copy.deepcopy(func)
    if tail is not None:
        new.body = new.body[:-1]

    def fix(body):
        nonlocal changed
        for k, st in enumerate(body):
            if isinstance(st, ast.If) and not st.orelse and st.body and isinstance(st.body[-1], ast.Return) and k + 1 < len(body) and not any(isinstance(n, ast.Return) for x in st.body[:-1] for n in ast.walk(x)):
                rest = body[k + 1 :]
                st.body = st.body[:-1] or [ast.copy_location(ast.Pass(), st)]
                st.orelse = fix(rest)
                changed = True
                return body[: k + 1]
        return body

    new.body = fix(new.body)
    if tail is not None:
        new.body = new.body + [_copy.deepcopy(tail)]
    return ast.fix_missing_locations(new) if changed else func


def _walk_no_nested_defs(func):
    stack = list(func.body)
    while stack:
        n = stack.pop()
        yield n
        for c in ast.iter_child_nodes(n):
            if not isinstance(c, (ast.FunctionDef, ast.AsyncFunctionDef, ast.Lambda, ast.ClassDef)):
                stack.append(c)


def merge_first_rest_loops(func: ast.FunctionDef, keep=frozenset()) -> ast.FunctionDef:
    """``it = iter(xs)`` ; ``for a in it: INIT; break`` ; ``for a in it: BODY``  (``it`` a new local used nowhere
    else)  ->  ``for i, a in enumerate(xs): if i == 0: INIT`` / ``else: BODY``."""
    import copy as _copy

    counts = _store_counts(func)
    changed = False
    new = _copy.deepcopy(func)
    for block in _blocks(new):
        i = 0
        while i + 2 < len(block) + 0:
            st = block[i]
            ok = isinstance(st, ast.Assign) and len(st.targets) == 1 and isinstance(st.targets[0], ast.Name) and isinstance(st.value, ast.Call) and norm(st.value.func) == "iter" and len(st.value.args) == 1
            if ok:
                it = st.targets[0].id
                # comments / other statements may not sit in between
                l1, l2 = (block[i + 1], block[i + 2]) if i + 2 < len(block) else (None, None)
                ok = (
                    it not in keep and counts.get(it) == 1
                    and isinstance(l1, ast.For) and isinstance(l2, ast.For) and not l1.orelse and not l2.orelse
                    and norm(l1.iter) == it and norm(l2.iter) == it and norm(l1.target) == norm(l2.target)
                    and l1.body and isinstance(l1.body[-1], ast.Break)
                    and not any(isinstance(n, (ast.Break, ast.Continue)) for x in l1.body[:-1] for n in ast.walk(x))
                    and not any(isinstance(n, ast.Break) for x in l2.body for n in ast.walk(x))
                    and sum(1 for n in ast.walk(new) if isinstance(n, ast.Name) and n.id == it and isinstance(n.ctx, ast.Load)) == 2
                )
            if ok:
                idx = "_first_rest_index"
                test = ast.Compare(left=ast.Name(id=idx, ctx=ast.Load()), ops=[ast.Eq()], comparators=[ast.Constant(value=0)])
                loop = ast.For(
                    target=ast.Tuple(elts=[ast.Name(id=idx, ctx=ast.Store()), l1.target], ctx=ast.Store()),
                    iter=ast.Call(func=ast.Name(id="enumerate", ctx=ast.Load()), args=[st.value.args[0]], keywords=[]),
                    body=[ast.If(test=test, body=l1.body[:-1] or [ast.Pass()], orelse=l2.body)],
                    orelse=[],
                )
                for n in ast.walk(loop):
                    ast.copy_location(n, l1)
                block[i : i + 3] = [ast.fix_missing_locations(loop)]
                changed = True
                continue
            i += 1
    return new if changed else func


def hoist_leading_walrus(func: ast.FunctionDef) -> ast.FunctionDef:
    """``if (a := e) <op> ...:``  ->  ``a = e`` ; ``if a <op> ...:`` when the assignment expression is the
    first operand evaluated by the test (leftmost operand of comparisons / boolean operators /
    unary not, recursively), so that the binding is unconditional either way."""
    import copy as _copy

    changed = False

    def leading(e):
        """-> (NamedExpr node, setter replacing it by a Name) or None"""
        if isinstance(e, ast.NamedExpr) and isinstance(e.target, ast.Name):
            return e
        if isinstance(e, ast.Compare):
            return leading(e.left)
        if isinstance(e, ast.BoolOp):
            return leading(e.values[0])
        if isinstance(e, ast.UnaryOp):
            return leading(e.operand)
        if isinstance(e, ast.BinOp):
            return leading(e.left)
        return None

    def rewrite(stmts):
        nonlocal changed
        out = []
        for st in stmts:
            if isinstance(st, (ast.FunctionDef, ast.ClassDef)):
                out.append(st)
                continue
            for fld in ("body", "orelse", "finalbody"):
                if isinstance(getattr(st, fld, None), list):
                    setattr(st, fld, rewrite(getattr(st, fld)))
            if isinstance(st, ast.Try):
                for h in st.handlers:
                    h.body = rewrite(h.body)
            if isinstance(st, ast.If):
                w = leading(st.test)
                if w is not None:
                    asg = ast.copy_location(ast.Assign(targets=[ast.Name(id=w.target.id, ctx=ast.Store())], value=w.value), st)

                    class Sub(ast.NodeTransformer):
                        def visit_NamedExpr(self, n, w=w):  # noqa: N802
                            if n is w:
                                return ast.copy_location(ast.Name(id=w.target.id, ctx=ast.Load()), n)
                            return self.generic_visit(n)

                    st.test = Sub().visit(st.test)
                    out.append(ast.fix_missing_locations(asg))
                    changed = True
            out.append(st)
        return out

    new = _copy.deepcopy(func)
    new.body = rewrite(new.body)
    return ast.fix_missing_locations(new) if changed else func


def helper_shape(node: ast.FunctionDef) -> str:
    """Structural fingerprint of a private helper that survives a pure rename: the definition with its
    own name, its docstring and the names of private callees blanked."""
    import copy as _copy
    import hashlib

    n = _copy.deepcopy(node)
    n.name = "_"
    if n.body and isinstance(n.body[0], ast.Expr) and isinstance(n.body[0].value, ast.Constant) and isinstance(n.body[0].value.value, str):
        n.body = n.body[1:] or [ast.Pass()]
    for x in ast.walk(n):
        if isinstance(x, ast.Name) and x.id.startswith("_") and not x.id.startswith("__"):
            x.id = "_P"
        elif isinstance(x, ast.Attribute) and x.attr.startswith("_") and not x.attr.startswith("__") and isinstance(x.value, ast.Name) and x.value.id in ("self", "cls"):
            # private methods called on self; private data attributes keep their names
            pass
        if isinstance(x, ast.Call) and isinstance(x.func, ast.Attribute) and isinstance(x.func.value, ast.Name) and x.func.value.id in ("self", "cls") and x.func.attr.startswith("_") and not x.func.attr.startswith("__"):
            x.func.attr = "_P"
    return hashlib.sha1(ast.dump(n, annotate_fields=False, include_attributes=False).encode()).hexdigest()[:16]


def loops_to_comprehensions(stmts: list) -> dict:
    """Dict / list locals built by the idiom  ``x = {}`` ; ``for t in it: [if c:] x[k] = v``  (or
    ``x = []`` ... ``x.append(v)``) at the top level of ``stmts``  ->  {name: equivalent comprehension}."""
    out = {}
    for i, st in enumerate(stmts):
        if not (isinstance(st, ast.Assign) and len(st.targets) == 1 and isinstance(st.targets[0], ast.Name)):
            continue
        name = st.targets[0].id
        is_dict = (isinstance(st.value, ast.Dict) and not st.value.keys) or (isinstance(st.value, ast.Call) and norm(st.value.func) == "dict" and not st.value.args and not st.value.keywords)
        is_list = (isinstance(st.value, ast.List) and not st.value.elts) or (isinstance(st.value, ast.Call) and norm(st.value.func) == "list" and not st.value.args)
        if not (is_dict or is_list):
            continue
        loops = [x for x in stmts[i + 1 :] if isinstance(x, ast.For) and any(isinstance(n, ast.Name) and n.id == name for n in ast.walk(x))]
        others = [x for x in stmts[i + 1 :] if not isinstance(x, ast.For) and any(isinstance(n, ast.Name) and n.id == name and isinstance(n.ctx, ast.Store) for n in ast.walk(x))]
        if len(loops) != 1 or others or loops[0].orelse:
            continue
        lp = loops[0]
        body, conds = lp.body, []
        while len(body) == 1 and isinstance(body[0], ast.If) and not body[0].orelse:
            conds.append(body[0].test)
            body = body[0].body
        if len(body) != 1:
            continue
        b = body[0]
        gen = ast.comprehension(target=lp.target, iter=lp.iter, ifs=conds, is_async=0)
        if is_dict and isinstance(b, ast.Assign) and len(b.targets) == 1 and isinstance(b.targets[0], ast.Subscript) and norm(b.targets[0].value) == name:
            out[name] = ast.fix_missing_locations(ast.copy_location(ast.DictComp(key=b.targets[0].slice, value=b.value, generators=[gen]), st))
        elif is_list and isinstance(b, ast.Expr) and isinstance(b.value, ast.Call) and norm(b.value.func) == f"{name}.append" and len(b.value.args) == 1:
            out[name] = ast.fix_missing_locations(ast.copy_location(ast.ListComp(elt=b.value.args[0], generators=[gen]), st))
    return out

def _decorator_name(d: ast.expr) -> str:
    if isinstance(d, ast.Call):
        d = d.func
    return norm(d)


def _literal_strs(node: ast.expr) -> tuple[str, ...]:
    if isinstance(node, ast.Constant) and isinstance(node.value, str):
        return (node.value,)
    if isinstance(node, (ast.Tuple, ast.List)):
        out = []
        for e in node.elts:
            if not (isinstance(e, ast.Constant) and isinstance(e.value, str)):
                msg = f"non-literal cache declaration {norm(node)}"
                raise AnalysisError(msg)
            out.append(e.value)
        return tuple(out)
    msg = f"non-literal cache declaration {norm(node)}"
    raise AnalysisError(msg)


class Program:
    def __init__(self, src: Path | None = None, sources: dict[str, str] | None = None) -> None:
        """``sources`` (module name -> source text) builds an in-memory program; it is
        used only for the embedded positive controls of zero-expected rules."""
        self.src = Path(src) if src else SRC
        self.modules: dict[str, ModuleInfo] = {}
        self.classes: dict[str, ClassInfo] = {}
        self.n_functions = 0
        self.inlined_helpers: list[str] = []
        self.absorbed: set[str] = set()
        if sources is not None:
            for modname, source in sources.items():
                mod = ModuleInfo(modname, Path(f"<embedded:{modname}>"), ast.parse(source), source)
                self.modules[modname] = mod
                self._scan_module(mod)
        else:
            if not self.src.is_dir():
                msg = f"source directory {self.src} not found"
                raise AnalysisError(msg)
            self._load()
        self._link()
        if sources is None:
            self._inline_new_helpers()
            import json as _json

            try:
                pinned_locals = _json.loads((Path(__file__).with_name("pinned_helpers.json")).read_text()).get("locals", {})
            except OSError:
                pinned_locals = {}
            # module-level constant tuples of exception classes used as `except NAME:`
            const_tuples: dict = {}
            const_tables: dict = {}
            for m in self.modules.values():
                counts: dict = {}
                for st in m.tree.body:
                    if isinstance(st, ast.Assign):
                        for t in st.targets:
                            if isinstance(t, ast.Name):
                                counts[t.id] = counts.get(t.id, 0) + 1
                for st in m.tree.body:
                    if isinstance(st, ast.Assign) and len(st.targets) == 1 and isinstance(st.targets[0], ast.Name) and counts[st.targets[0].id] == 1 and isinstance(st.value, ast.Tuple) and st.value.elts and all(isinstance(e, (ast.Name, ast.Attribute)) for e in st.value.elts):
                        const_tuples.setdefault(m.name, {})[st.targets[0].id] = st.value
                    if isinstance(st, ast.Assign) and len(st.targets) == 1 and isinstance(st.targets[0], ast.Name) and counts[st.targets[0].id] == 1 and isinstance(st.value, (ast.Tuple, ast.List)) and st.value.elts and all(isinstance(e, ast.Tuple) and all(isinstance(x, (ast.Name, ast.Attribute, ast.Constant)) for x in e.elts) for e in st.value.elts):
                        const_tables.setdefault(m.name, {})[st.targets[0].id] = st.value
            for m in self.modules.values():
                targets = list(m.functions.values())
                for c in m.classes.values():
                    targets += list(c.methods.values()) + list(c.setters.values())
                for f in targets:
                    keep_l = frozenset(pinned_locals.get(m.name, {}).get(f.qualname, ()))
                    f.node = raise_guard_first(f.node)
                    f.node = expand_defaulted_mappings(f.node, keep=keep_l)
                    f.node = sink_tail_into_arms(f.node, keep=keep_l)
                    f.node = canon_ifexp_not(f.node)
                    f.node = desugar_operator_calls(f.node)
                    f.node = unroll_const_table_dispatch(f.node, const_tables.get(m.name, {}))
                    f.node = expand_starred_tuple_args(f.node, keep=keep_l)
                    f.node = hoist_leading_walrus(f.node)
                    f.node = expand_param_aliases(f.node, keep=keep_l)
                    f.node = fold_new_loop_built(f.node, keep=keep_l)
                    f.node = fold_sum_loops(f.node, keep=keep_l)
                    f.node = expand_named_conditions(f.node, keep=keep_l)
                    f.node = merge_unpack_then_store(f.node, keep=keep_l)
                    f.node = inline_new_single_use_locals(f.node, keep=keep_l)
                    f.node = guard_continue_to_else(f.node)
                    f.node = guard_return_to_else(f.node)
                    f.node = merge_first_rest_loops(f.node, keep=keep_l)
                    f.node = merge_loop_target_unpack(f.node, keep=keep_l)
                    f.node = splat_literal_star_args(f.node)
                    f.node = dict_update_to_loop(f.node)
                    f.node = hoist_leading_walrus(desugar_reduce(unroll_method_tuple_loops(expand_self_aliases(f.node))))
                    f.node = _subst_exception_tuples(f.node, const_tuples.get(m.name, {}))

    # ------------------------------------------------------------------
    def _inline_new_helpers(self) -> None:
        """Private helper functions / methods that do not exist in the pinned tree (listed in
        pinned_helpers.json) were introduced by a later change - typically code extracted from an
        existing function.  Their calls are replaced by their bodies (semantics preserving; see
        inline_private_helpers) so that every rule analyses the statements where they take effect,
        whichever way the code is cut into functions.  Helpers of the pinned tree stay calls: rules
        anchor on some of them by name."""
        import json as _json

        try:
            pinned = _json.loads((Path(__file__).with_name("pinned_helpers.json")).read_text())
        except OSError:
            return
        self.renamed_helpers: dict[str, str] = {}
        for m in self.modules.values():
            known = set(pinned.get(m.name, []))
            # a pinned private helper that vanished while a new one of identical shape appeared was renamed:
            # the model keeps the pinned name (rules anchor on it)
            shapes = pinned.get("shapes", {}).get(m.name, {})
            present = set(m.functions) | {n for c in m.classes.values() for n in c.methods}
            vanished = {n for n in shapes if n not in present}
            if vanished:
                cands = []
                for f in list(m.functions.values()) + [f for c in m.classes.values() for f in c.methods.values()]:
                    if f.name.startswith("_") and not f.name.startswith("__") and f.name not in known:
                        cands.append(f)
                for f in cands:
                    h = helper_shape(f.node)
                    match = [v for v in vanished if h in shapes[v]]
                    if len(match) == 1 and sum(1 for g in cands if helper_shape(g.node) == h) == 1:
                        self._rename_private(m, f.name, match[0])
                        vanished.discard(match[0])
            fresh = set()
            for f in m.functions.values():
                if f.name.startswith("_") and not f.name.startswith("__") and f.name not in known:
                    fresh.add(f.name)
            for c in m.classes.values():
                for f in list(c.methods.values()) + list(c.setters.values()):
                    if f.name.startswith("_") and not f.name.startswith("__") and f.name not in known:
                        fresh.add(f.name)
            targets = list(m.functions.values())
            for c in m.classes.values():
                targets += list(c.methods.values()) + list(c.setters.values())
            # nested functions that the pinned tree does not have (an extracted inner step, a closure
            # replacing a repeated expression) are inlined where they are called directly
            known_nested = set(pinned.get("nested", {}).get(m.name, []))
            fresh_closures: dict = {}
            for f in targets:
                names = set()
                for n in ast.walk(f.node):
                    if isinstance(n, ast.FunctionDef) and n is not f.node and f"{f.qualname}.{n.name}" not in known_nested:
                        names.add(n.name)
                if names:
                    fresh_closures[f.qualname] = frozenset(names)
            if not fresh and not fresh_closures:
                continue
            self.inlined_helpers += sorted(f"{m.name}.{n}" for n in fresh) + sorted(f"{m.name}.{q}.{n}" for q, ns in fresh_closures.items() for n in ns)
            for f in targets:
                if not fresh and f.qualname not in fresh_closures:
                    continue
                try:
                    f.node = inline_private_helpers(f, methods=True, only=frozenset(fresh), closures=fresh_closures.get(f.qualname, frozenset()))
                except RecursionError:  # pragma: no cover
                    pass
            # a new helper that is no longer referenced anywhere after inlining has been absorbed into its
            # callers: its statements are analysed there, and the stand-alone definition is dropped from the
            # model (it is private and unreachable) so that who-may-write rules do not see the same code twice
            refs: dict[str, int] = dict.fromkeys(fresh, 0)
            for f in targets:
                for n in ast.walk(f.node):
                    if n is f.node:
                        continue
                    nm = n.id if isinstance(n, ast.Name) else n.attr if isinstance(n, ast.Attribute) else None
                    if nm in refs and not (f.name == nm):
                        refs[nm] += 1
            for st in m.tree.body:
                if isinstance(st, (ast.FunctionDef, ast.ClassDef)):
                    continue
                for n in ast.walk(st):
                    nm = n.id if isinstance(n, ast.Name) else n.attr if isinstance(n, ast.Attribute) else None
                    if nm in refs:
                        refs[nm] += 1
            for other in self.modules.values():
                if other is m:
                    continue
                for n in ast.walk(other.tree):
                    nm = n.attr if isinstance(n, ast.Attribute) else n.id if isinstance(n, ast.Name) else None
                    if nm in refs:
                        refs[nm] += 1
                    if isinstance(n, ast.ImportFrom):
                        for a in n.names:
                            if a.name in refs:
                                refs[a.name] += 1
            for nm, cnt in refs.items():
                if cnt:
                    continue
                if nm in m.functions:
                    del m.functions[nm]
                    self.absorbed.add(f"{m.name}.{nm}")
                for c in m.classes.values():
                    if nm in c.methods:
                        del c.methods[nm]
                        self.absorbed.add(f"{m.name}.{c.name}.{nm}")

    def _rename_private(self, m, old: str, new: str) -> None:
        self.renamed_helpers[f"{m.name}.{old}"] = new
        if old in m.functions:
            m.functions[new] = m.functions.pop(old)
            m.functions[new].name = new
            m.functions[new].node.name = new
        for c in m.classes.values():
            if old in c.methods:
                c.methods[new] = c.methods.pop(old)
                c.methods[new].name = new
                c.methods[new].node.name = new
        for mod in self.modules.values():
            for n in ast.walk(mod.tree):
                if isinstance(n, ast.Name) and n.id == old:
                    n.id = new
                elif isinstance(n, ast.Attribute) and n.attr == old:
                    n.attr = new
                elif isinstance(n, ast.FunctionDef) and n.name == old:
                    n.name = new
                elif isinstance(n, ast.alias) and n.name == old:
                    n.name = new

    def _load(self) -> None:
        for path in sorted(self.src.rglob("*.py")):
            rel = path.relative_to(self.src).with_suffix("")
            parts = ["mici", *rel.parts]
            if parts[-1] == "__init__":
                parts = parts[:-1]
            modname = ".".join(parts)
            source = path.read_text()
            try:
                tree = ast.parse(source, filename=str(path))
            except SyntaxError as e:
                msg = f"cannot parse {path}: {e}"
                raise AnalysisError(msg) from e
            mod = ModuleInfo(modname, path, tree, source)
            self.modules[modname] = mod
            self._scan_module(mod)

    def _scan_module(self, mod: ModuleInfo) -> None:
        def scan_body(body):
            for st in body:
                if isinstance(st, ast.Import):
                    for a in st.names:
                        mod.imports[a.asname or a.name.split(".")[0]] = a.name
                elif isinstance(st, ast.ImportFrom):
                    for a in st.names:
                        mod.imports[a.asname or a.name] = f"{st.module}.{a.name}"
                elif isinstance(st, ast.If):
                    scan_body(st.body)
                    scan_body(st.orelse)
                elif isinstance(st, ast.Try):
                    scan_body(st.body)
                    for h in st.handlers:
                        scan_body(h.body)
                elif isinstance(st, ast.ClassDef):
                    self._scan_class(mod, st)
                elif isinstance(st, ast.FunctionDef):
                    mod.functions[st.name] = self._mk_func(mod, None, st)
                elif isinstance(st, ast.Assign) and len(st.targets) == 1:
                    t = st.targets[0]
                    if isinstance(t, ast.Name):
                        mod.constants[t.id] = st.value
                elif isinstance(st, ast.AnnAssign) and isinstance(st.target, ast.Name):
                    if st.value is not None:
                        mod.constants[st.target.id] = st.value

        scan_body(mod.tree.body)

    def _mk_func(self, mod, cls, node: ast.FunctionDef) -> FuncInfo:
        self.n_functions += 1
        f = FuncInfo(node.name, node, mod, cls)
        for d in node.decorator_list:
            dn = _decorator_name(d)
            if dn in ("property", "abstractproperty", "abc.abstractproperty"):
                f.is_property = True
            if dn.endswith(".setter"):
                f.is_setter = True
            if dn in (
                "abstractmethod",
                "abc.abstractmethod",
                "abstractproperty",
                "abc.abstractproperty",
            ):
                f.is_abstract = True
            if dn == "staticmethod":
                f.is_static = True
            if dn in ("cache_in_state", "cache_in_state_with_aux") and isinstance(
                d, ast.Call
            ):
                f.cache_decorator = dn
                if dn == "cache_in_state":
                    deps: tuple = ()
                    for a in d.args:
                        deps += _literal_strs(a)
                    f.cache_deps = deps
                else:
                    args = list(d.args)
                    kw = {k.arg: k.value for k in d.keywords}
                    dep_node = args[0] if args else kw.get("depends_on")
                    aux_node = args[1] if len(args) > 1 else kw.get("auxiliary_outputs")
                    if dep_node is None or aux_node is None:
                        msg = f"cannot read cache declaration on {node.name}"
                        raise AnalysisError(msg)
                    f.cache_deps = _literal_strs(dep_node)
                    f.cache_aux = _literal_strs(aux_node)
        return f

    def _scan_class(self, mod: ModuleInfo, node: ast.ClassDef) -> None:
        ci = ClassInfo(node.name, node, mod)
        ci.base_names = [norm(b) for b in node.bases]
        for st in node.body:
            if isinstance(st, ast.FunctionDef):
                f = self._mk_func(mod, ci, st)
                if f.is_setter:
                    ci.setters[st.name] = f
                else:
                    ci.methods[st.name] = f
            elif isinstance(st, ast.Assign) and len(st.targets) == 1:
                t = st.targets[0]
                if isinstance(t, ast.Name):
                    ci.class_attrs[t.id] = st.value
            elif isinstance(st, ast.AnnAssign) and isinstance(st.target, ast.Name):
                ci.class_attrs[st.target.id] = st.value
        mod.classes[node.name] = ci
        if node.name in self.classes:
            msg = f"duplicate class name {node.name}"
            raise AnalysisError(msg)
        self.classes[node.name] = ci

    # ------------------------------------------------------------------
    def _link(self) -> None:
        for ci in self.classes.values():
            for b in ci.base_names:
                short = b.split(".")[-1]
                target = None
                if "." not in b:
                    # same module or imported from a mici module
                    if b in ci.module.classes:
                        target = ci.module.classes[b]
                    else:
                        dotted = ci.module.imports.get(b, "")
                        if dotted.startswith("mici.") and short in self.classes:
                            target = self.classes[short]
                else:
                    head = b.split(".")[0]
                    dotted = ci.module.imports.get(head, "")
                    if dotted.startswith("mici") and short in self.classes:
                        target = self.classes[short]
                if target is not None:
                    ci.bases.append(target)
                else:
                    ci.external_bases.append(b)
        for ci in self.classes.values():
            ci.mro = self._c3(ci, ())

    def _c3(self, ci: ClassInfo, stack: tuple) -> list[ClassInfo]:
        if ci.mro:
            return ci.mro
        if ci in stack:
            msg = f"inheritance cycle at {ci.name}"
            raise AnalysisError(msg)
        seqs = [list(self._c3(b, (*stack, ci))) for b in ci.bases] + [list(ci.bases)]
        res = [ci]
        while True:
            seqs = [s for s in seqs if s]
            if not seqs:
                break
            for s in seqs:
                cand = s[0]
                if not any(cand in t[1:] for t in seqs):
                    break
            else:
                msg = f"inconsistent MRO for {ci.name}"
                raise AnalysisError(msg)
            res.append(cand)
            for s in seqs:
                if s and s[0] is cand:
                    del s[0]
        ci.mro = res
        return res

    # ------------------------------------------------------------------
    def module(self, short: str) -> ModuleInfo:
        name = f"mici.{short}"
        if name not in self.modules:
            msg = f"anchor module {name} not found"
            raise AnalysisError(msg)
        return self.modules[name]

    def cls(self, name: str) -> ClassInfo:
        if name not in self.classes:
            msg = f"anchor class {name} not found"
            raise AnalysisError(msg)
        return self.classes[name]

    def func(self, module: str, name: str) -> FuncInfo:
        m = self.module(module)
        if name not in m.functions:
            msg = f"anchor function {module}.{name} not found"
            raise AnalysisError(msg)
        return m.functions[name]

    def func_inlined(self, module: str, name: str, keep=frozenset()) -> FuncInfo:
        """The function with private same-module helpers inlined, except the named anchors in ``keep``
        (helpers the rules look for as calls)."""
        import dataclasses

        f = self.func(module, name)
        return dataclasses.replace(f, node=inline_private_helpers(f, keep=frozenset(keep)))

    def method(self, cls: str, name: str) -> FuncInfo:
        c = self.cls(cls)
        if name not in c.methods:
            msg = f"anchor method {cls}.{name} not found"
            raise AnalysisError(msg)
        return c.methods[name]

    def subclasses(self, base: str, *, concrete_only: bool = False) -> list[ClassInfo]:
        out = [
            c
            for c in self.classes.values()
            if c.is_subclass_of(base) and (c.is_concrete or not concrete_only)
        ]
        return sorted(out, key=lambda c: (str(c.module.path), c.node.lineno))

    def all_functions(self):
        for m in self.modules.values():
            yield from m.functions.values()
            for c in m.classes.values():
                yield from c.methods.values()
                yield from c.setters.values()

    def coverage_summary(self) -> dict:
        return {
            "units_parsed": len(self.modules),
            "classes_modelled": len(self.classes),
            "functions_modelled": self.n_functions,
            "source_root": str(self.src),
        }


# ----------------------------------------------------------------------
# small ast helpers shared by the rules


def is_self_attr(node: ast.AST, attr: str | None = None) -> bool:
    return (
        isinstance(node, ast.Attribute)
        and isinstance(node.value, ast.Name)
        and node.value.id == "self"
        and (attr is None or node.attr == attr)
    )


def call_name(node: ast.AST) -> str:
    """Dotted name of a call's callee ('' when not a simple dotted name)."""
    if not isinstance(node, ast.Call):
        return ""
    f = node.func
    parts = []
    while isinstance(f, ast.Attribute):
        parts.append(f.attr)
        f = f.value
    if isinstance(f, ast.Name):
        parts.append(f.id)
        return ".".join(reversed(parts))
    if isinstance(f, ast.Call) and isinstance(f.func, ast.Name) and f.func.id == "super":
        parts.append("super()")
        return ".".join(reversed(parts))
    return ""


def walk_no_nested(node: ast.AST):
    """ast.walk that does not descend into nested function/class definitions
    (the root itself may be a function)."""
    todo = list(ast.iter_child_nodes(node))
    while todo:
        n = todo.pop()
        yield n
        if isinstance(n, (ast.FunctionDef, ast.AsyncFunctionDef, ast.ClassDef, ast.Lambda)):
            continue
        todo.extend(ast.iter_child_nodes(n))


def stmts_in_order(body: list[ast.stmt]):
    """All statements in source order, descending into compound statements but
    not nested defs."""
    for st in body:
        yield st
        for fld in ("body", "orelse", "finalbody"):
            sub = getattr(st, fld, None)
            if sub and not isinstance(st, (ast.FunctionDef, ast.ClassDef)):
                yield from stmts_in_order(sub)
        if isinstance(st, ast.Try):
            for h in st.handlers:
                yield from stmts_in_order(h.body)
