"""A small abstract executor for the state-cache decorators (and code of the same kind).

The decorators of ``mici.states`` are closures over a key list whose behaviour is decided entirely by the
*shape* of a handful of containers: which cache keys are present / hold the invalidation marker ``None`` / hold
a value, whether the wrapped method returned a tuple and of which length, whether a call counter is attached.
None of that is numerical.  This module interprets the decorator source (ast, never imported or run by the
Python runtime) over a finite domain of opaque tokens: cache values, results and system objects are ``Token``
instances with no structure, container values (key lists, result tuples, the cache dictionary, the dependency
table) are small containers of tokens.  Every test the decorators make is decidable on that domain, so each
scenario has exactly one abstract run; the rules enumerate the scenarios.

Any construct outside the supported subset raises ``Unsupported``: callers fall back to their coarser analysis
or report an analysis error - never a silent pass.
"""

from __future__ import annotations

import ast
import itertools
from collections import Counter


class Unsupported(Exception):
    pass


class Token:
    """An opaque abstract value (a cached value, a result component, a system object, ...)."""

    def __deepcopy__(self, memo):
        return self


    def __init__(self, name: str, **attrs):
        self._name = name
        self._attrs = attrs

    def __repr__(self):
        return self._name

    __str__ = __repr__


class _ArrayType:
    """Stands for numpy.ndarray: array tokens (Token(..., array=True)) are its instances."""

    def __deepcopy__(self, memo):
        return self

    def __repr__(self):
        return "<ndarray type>"


ArrayType = _ArrayType()


class Obj:
    """An abstract object with a fixed table of attributes."""

    def __deepcopy__(self, memo):
        return self


    def __init__(self, name: str, **attrs):
        object.__setattr__(self, "_name", name)
        object.__setattr__(self, "_attrs", dict(attrs))

    def __repr__(self):
        return self._name


class Stub:
    """An abstract callable (the wrapped method): counts its calls and returns the scenario's result."""

    def __deepcopy__(self, memo):
        return self


    def __init__(self, name: str, result):
        self.name = name
        self.result = result
        self.calls = 0
        self.args = []

    def __repr__(self):
        return f"<{self.name}>"


EXC_BASES = {
    "BaseException": (),
    "Exception": ("BaseException",),
    "KeyboardInterrupt": ("BaseException",),
    "SystemExit": ("BaseException",),
    "LookupError": ("Exception",),
    "KeyError": ("LookupError",),
    "IndexError": ("LookupError",),
    "ValueError": ("Exception",),
    "TypeError": ("Exception",),
    "AttributeError": ("Exception",),
    "RuntimeError": ("Exception",),
    "StopIteration": ("Exception",),
    "ImportError": ("Exception",),
    "OSError": ("Exception",),
    "ArithmeticError": ("Exception",),
    "ZeroDivisionError": ("ArithmeticError",),
    "PicklingError": ("Exception",),
    "Empty": ("Exception",),
    "NotImplementedError": ("RuntimeError",),
    "NameError": ("Exception",),
    "UnboundLocalError": ("NameError",),
    "OverflowError": ("ArithmeticError",),
}


def exc_ancestors(name: str) -> set:
    out, todo = set(), [name]
    while todo:
        n = todo.pop()
        if n in out:
            continue
        out.add(n)
        todo.extend(EXC_BASES.get(n, ("Exception",) if n not in ("BaseException",) else ()))
    return out


class ExcClass:
    """An exception class of the abstract domain (identified by name; hierarchy in EXC_BASES)."""

    _all: dict = {}

    def __new__(cls, name):
        if name not in cls._all:
            o = super().__new__(cls)
            o.name = name
            cls._all[name] = o
        return cls._all[name]

    def __deepcopy__(self, memo):
        return self

    def __repr__(self):
        return f"<exception class {self.name}>"


class ExcObj:
    def __init__(self, cls: ExcClass, args=(), cause=None):
        self.cls = cls
        self.args = tuple(args)
        self.cause = cause

    def __deepcopy__(self, memo):
        return self

    def __repr__(self):
        return f"{self.cls.name}()"


class PyRaise(Exception):
    def __init__(self, exc_name: str, node=None, exc: ExcObj | None = None):
        super().__init__(exc_name)
        self.exc_name = exc_name
        self.node = node
        self.exc = exc or ExcObj(ExcClass(exc_name))


class _Return(Exception):
    def __init__(self, value):
        self.value = value


class _Break(Exception):
    pass


class _Continue(Exception):
    pass


class Closure:

    def __deepcopy__(self, memo):
        return self

    def __init__(self, node, env, interp):
        self.node = node
        self.env = env
        self.interp = interp

    def __repr__(self):
        return f"<closure {self.node.name if hasattr(self.node, 'name') else 'lambda'}>"


class ClassObj:
    """An abstract class: a table of methods (closures) and class attributes; single inheritance from object."""

    def __deepcopy__(self, memo):
        return self


    def __init__(self, name: str, attrs: dict, bases=()):
        self.name = name
        self.own = attrs
        self.bases = tuple(b for b in bases if isinstance(b, ClassObj))
        # linearised attribute table (single inheritance chains are all that is in scope)
        self.attrs = {}
        for b in reversed(self.bases):
            self.attrs.update(b.attrs)
        self.attrs.update(attrs)

    def mro(self):
        out = [self]
        for b in self.bases:
            for c in b.mro():
                if c not in out:
                    out.append(c)
        return out

    def __repr__(self):
        return f"<class {self.name}>"


class NamedTupleClass:
    def __init__(self, name, fields, defaults):
        self.name, self.fields, self.defaults = name, list(fields), dict(defaults)

    def __deepcopy__(self, memo):
        return self

    def make(self, args, kwargs):
        vals = dict(self.defaults)
        for f, a in zip(self.fields, args):
            vals[f] = a
        for k, v in kwargs.items():
            if k not in self.fields:
                raise PyRaise("TypeError")
            vals[k] = v
        if set(vals) != set(self.fields):
            raise PyRaise("TypeError")
        return NamedTupleObj(self, tuple(vals[f] for f in self.fields))


class NamedTupleObj(tuple):
    def __new__(cls, ntc, vals):
        o = super().__new__(cls, vals)
        o.ntc = ntc
        return o

    def __deepcopy__(self, memo):
        import copy as _copy

        return NamedTupleObj(self.ntc, tuple(_copy.deepcopy(v, memo) for v in self))


class HObj:
    """A harness object: behaviour supplied by the analysis (stubs for collaborators outside the analysed module).
    `methods` maps a name to a Python callable(*args, **kwargs); `attrs` are plain attributes; `iter_hook()`
    yields the elements the object iterates over."""

    def __init__(self, name, attrs=None, methods=None, iter_hook=None, settable=True):
        self.name = name
        self.attrs = dict(attrs or {})
        self.methods = dict(methods or {})
        self.iter_hook = iter_hook
        self.settable = settable

    def __repr__(self):
        return self.name


class Instance:
    """An instance of a ClassObj: an identity plus a real attribute dictionary."""

    def __init__(self, cls: ClassObj):
        object.__setattr__(self, "cls", cls)
        object.__setattr__(self, "dict", {})

    def __repr__(self):
        return f"<{self.cls.name} object>"

    def __deepcopy__(self, memo):
        import copy as _copy

        new = Instance(self.cls)
        memo[id(self)] = new
        object.__setattr__(new, "dict", _copy.deepcopy(self.dict, memo))
        return new


class BoundMethod:

    def __deepcopy__(self, memo):
        return self

    def __init__(self, fn, inst):
        self.fn = fn
        self.inst = inst


class SuperProxy:
    def __init__(self, inst, start=None):
        self.inst = inst
        self.start = start


class Env:
    def __init__(self, parent=None, declared=frozenset()):
        self.vars: dict = {}
        self.parent = parent
        self.declared = declared  # names the function binds somewhere in its body (its locals)

    def lookup(self, name):
        e = self
        while e is not None:
            if name in e.vars:
                return e.vars[name]
            if name in e.declared:
                # a local of the function that is not bound on this path
                raise PyRaise("UnboundLocalError", None, ExcObj(ExcClass("UnboundLocalError")))
            e = e.parent
        raise Unsupported(f"unbound name {name}")

    def set(self, name, value):
        self.vars[name] = value


EXC_PARENTS = {
    "KeyError": ("KeyError", "LookupError", "Exception", "BaseException"),
    "IndexError": ("IndexError", "LookupError", "Exception", "BaseException"),
    "ValueError": ("ValueError", "Exception", "BaseException"),
    "TypeError": ("TypeError", "Exception", "BaseException"),
    "AttributeError": ("AttributeError", "Exception", "BaseException"),
    "StopIteration": ("StopIteration", "Exception", "BaseException"),
}

TYPE_NAMES = {"Counter": Counter, "float": float, "slice": slice, "tuple": tuple, "list": list, "dict": dict, "set": set, "str": str, "int": int, "bool": bool, "frozenset": frozenset}

SAFE_METHODS = {
    dict: {"get", "items", "keys", "values", "update", "setdefault", "pop", "copy", "clear", "__contains__", "__setitem__", "__getitem__"},
    Counter: {"get", "items", "keys", "values", "update", "setdefault", "pop", "copy", "__contains__", "__setitem__", "__getitem__"},
    list: {"append", "extend", "index", "copy", "insert", "pop", "count"},
    tuple: {"index", "count"},
    set: {"add", "update", "discard", "remove", "copy", "union", "__contains__"},
    str: {"format", "join", "startswith", "endswith", "split"},
}


class Interp:
    def __init__(self, globals_: dict | None = None, budget: int = 20000):
        import os as _os

        if _os.environ.get("MVERIF_NO_ABSEXEC"):
            # test switch: behave as if the analysed code were outside the executor's subset (exercises the fallbacks)
            raise Unsupported("abstract executor disabled (MVERIF_NO_ABSEXEC)")
        self.globals = Env()
        for k, v in (globals_ or {}).items():
            self.globals.set(k, v)
        self.budget = budget

    # ------------------------------------------------------------------ calls
    def call(self, fn, args, kwargs=None):
        kwargs = kwargs or {}
        if isinstance(fn, Stub):
            fn.calls += 1
            fn.args.append(tuple(args))
            return fn.result
        if isinstance(fn, Closure):
            return self._call_closure(fn, list(args), dict(kwargs))
        if isinstance(fn, BoundMethod):
            return self.call(fn.fn, [fn.inst, *args], kwargs)
        if isinstance(fn, ClassObj):
            return self.instantiate(fn, args, kwargs)
        if isinstance(fn, NamedTupleClass):
            return fn.make(list(args), kwargs)
        if isinstance(fn, ExcClass):
            return ExcObj(fn, args)
        if callable(fn) and getattr(fn, "_absexec_builtin", False):
            return fn(*args, **kwargs)
        raise Unsupported(f"call of {fn!r}")

    def _call_closure(self, fn: Closure, args, kwargs):
        node = fn.node
        if getattr(fn, "declared", None) is None:
            decl = set()
            if not isinstance(node, ast.Lambda):
                for n in _walk_own(node):
                    if isinstance(n, ast.Name) and isinstance(n.ctx, ast.Store):
                        decl.add(n.id)
                    elif isinstance(n, ast.ExceptHandler) and n.name:
                        decl.add(n.name)
                    elif isinstance(n, (ast.FunctionDef, ast.ClassDef)):
                        decl.add(n.name)
                for n in _walk_own(node):
                    if isinstance(n, (ast.Global, ast.Nonlocal)):
                        decl -= set(n.names)
            fn.declared = frozenset(decl)
        env = Env(fn.env, fn.declared)
        a = node.args
        params = [p.arg for p in a.posonlyargs + a.args]
        defaults = [None] * (len(params) - len(a.defaults)) + list(a.defaults)
        for i, p in enumerate(params):
            if i < len(args):
                env.set(p, args[i])
            elif p in kwargs:
                env.set(p, kwargs.pop(p))
            elif defaults[i] is not None:
                env.set(p, self.ev(defaults[i], fn.env))
            else:
                raise Unsupported(f"missing argument {p}")
        if a.vararg:
            env.set(a.vararg.arg, tuple(args[len(params):]))
        elif len(args) > len(params):
            raise Unsupported("too many positional arguments")
        for p, d in zip(a.kwonlyargs, a.kw_defaults):
            if p.arg in kwargs:
                env.set(p.arg, kwargs.pop(p.arg))
            elif d is not None:
                env.set(p.arg, self.ev(d, fn.env))
            else:
                raise Unsupported(f"missing keyword argument {p.arg}")
        if a.kwarg:
            env.set(a.kwarg.arg, kwargs)
        elif kwargs:
            raise Unsupported(f"unexpected keyword arguments {sorted(kwargs)}")
        if isinstance(node, ast.Lambda):
            return self.ev(node.body, env)
        if getattr(fn, "defining_class", None):
            stack = self.__dict__.setdefault("_defining", [None])
            stack.append(fn.defining_class)
            try:
                return self._run_body(fn, node, env)
            finally:
                stack.pop()
        return self._run_body(fn, node, env)

    def _run_body(self, fn, node, env):
        if getattr(fn, "is_generator", None) is None:
            fn.is_generator = any(isinstance(n, (ast.Yield, ast.YieldFrom)) for n in _walk_own(node))
        if fn.is_generator:
            # evaluated eagerly: sound for generators without side effects between the yields that the
            # consumer could observe (the ones in scope only build values)
            out = []
            env.set("__yield__", out)
            try:
                self.run(node.body, env)
            except _Return:
                pass
            return iter(out)
        try:
            self.run(node.body, env)
        except _Return as r:
            return r.value
        return None

    def instantiate(self, cls: ClassObj, args, kwargs, init=True):
        inst = Instance(cls)
        if init and "__init__" in cls.attrs:
            self.call(cls.attrs["__init__"], [inst, *args], kwargs)
        elif init and (args or kwargs):
            raise PyRaise("TypeError")
        return inst

    def set_attribute(self, o, name, v):
        if isinstance(o, Instance):
            if "__setattr__" in o.cls.attrs:
                self.call(o.cls.attrs["__setattr__"], [o, name, v])
            elif f"__set_{name}" in o.cls.attrs:
                self.call(o.cls.attrs[f"__set_{name}"], [o, v])
            elif isinstance(o.cls.attrs.get(name), Closure) and getattr(o.cls.attrs[name], "is_property", False):
                raise PyRaise("AttributeError")
            else:
                o.dict[name] = v
        elif isinstance(o, HObj):
            if not o.settable:
                raise PyRaise("AttributeError")
            hook = o.methods.get(f"__set_{name}")
            if hook is not None:
                hook(v)
            else:
                o.attrs[name] = v
        elif isinstance(o, Obj):
            o._attrs[name] = v
        else:
            raise Unsupported("attribute store on non-object")

    # ------------------------------------------------------------------ statements
    def run(self, stmts, env):
        for st in stmts:
            self.budget -= 1
            if self.budget < 0:
                raise Unsupported("step budget exhausted")
            self.stmt(st, env)

    def stmt(self, st, env):
        if isinstance(st, ast.Expr):
            if isinstance(st.value, ast.Constant):
                return
            self.ev(st.value, env)
        elif isinstance(st, ast.Assign):
            v = self.ev(st.value, env)
            for t in st.targets:
                self.assign(t, v, env)
        elif isinstance(st, ast.AnnAssign):
            if st.value is not None:
                self.assign(st.target, self.ev(st.value, env), env)
        elif isinstance(st, ast.AugAssign):
            cur = self.ev(_as_load(st.target), env)
            val = self.ev(st.value, env)
            # in-place operators of the mutable built-in containers mutate the object (aliases observe the change)
            if isinstance(cur, list) and isinstance(st.op, ast.Add):
                cur.extend(self.iterate(val))
                new = cur
            elif isinstance(cur, list) and isinstance(st.op, ast.Mult) and isinstance(val, int):
                cur[:] = cur * val
                new = cur
            elif isinstance(cur, set) and isinstance(st.op, ast.BitOr) and isinstance(val, (set, frozenset)):
                cur.update(val)
                new = cur
            elif isinstance(cur, set) and isinstance(st.op, ast.Sub) and isinstance(val, (set, frozenset)):
                cur.difference_update(val)
                new = cur
            elif isinstance(cur, set) and isinstance(st.op, ast.BitAnd) and isinstance(val, (set, frozenset)):
                cur.intersection_update(val)
                new = cur
            elif isinstance(cur, dict) and isinstance(st.op, ast.BitOr) and isinstance(val, dict):
                cur.update(val)
                new = cur
            else:
                new = self.binop(st.op, cur, val)
            self.assign(st.target, new, env)
        elif isinstance(st, ast.If):
            self.run(st.body if self.truth(self.ev(st.test, env)) else st.orelse, env)
        elif isinstance(st, ast.For):
            src = self.ev(st.iter, env)
            # harness objects iterate lazily (what they do between two elements happens between two loop bodies)
            it = src.iter_hook() if isinstance(src, HObj) and src.iter_hook is not None else self.iterate(src)
            broke = False
            for x in it:
                self.assign(st.target, x, env)
                try:
                    self.run(st.body, env)
                except _Break:
                    broke = True
                    break
                except _Continue:
                    continue
            if not broke:
                self.run(st.orelse, env)
        elif isinstance(st, ast.While):
            n = 0
            while self.truth(self.ev(st.test, env)):
                n += 1
                if n > 64:
                    raise Unsupported("unbounded while loop")
                try:
                    self.run(st.body, env)
                except _Break:
                    break
                except _Continue:
                    continue
        elif isinstance(st, ast.Return):
            raise _Return(self.ev(st.value, env) if st.value is not None else None)
        elif isinstance(st, ast.Pass):
            return
        elif isinstance(st, ast.Break):
            raise _Break
        elif isinstance(st, ast.Continue):
            raise _Continue
        elif isinstance(st, (ast.FunctionDef,)):
            env.set(st.name, Closure(st, env, self))
        elif isinstance(st, ast.ClassDef):
            cenv = Env(env)
            bases = []
            base_names = []
            for b in st.bases:
                base_names.append(b.id if isinstance(b, ast.Name) else getattr(b, "attr", "?"))
                try:
                    bases.append(self.ev(b, env))
                except Unsupported:
                    bases.append(None)
            if any(isinstance(b, ExcClass) for b in bases) or any(n in EXC_BASES for n in base_names):
                EXC_BASES[st.name] = tuple(n for n in base_names if n in EXC_BASES or isinstance(ExcClass._all.get(n), ExcClass)) or ("Exception",)
                env.set(st.name, ExcClass(st.name))
                return
            if "NamedTuple" in base_names:
                fields = [(x.target.id, x.value) for x in st.body if isinstance(x, ast.AnnAssign) and isinstance(x.target, ast.Name)]
                env.set(st.name, NamedTupleClass(st.name, [f for f, _ in fields], {f: self.ev(d, env) for f, d in fields if d is not None}))
                return
            for x in st.body:
                if isinstance(x, ast.FunctionDef):
                    fn = Closure(x, env, self)
                    fn.defining_class = st.name
                    if any(isinstance(d, ast.Name) and d.id == "property" for d in x.decorator_list):
                        fn.is_property = True
                    if any(isinstance(d, ast.Name) and d.id == "staticmethod" for d in x.decorator_list):
                        fn.is_static = True
                    if any(isinstance(d, ast.Name) and d.id == "classmethod" for d in x.decorator_list):
                        fn.is_classmethod = True
                    setter = next((d for d in x.decorator_list if isinstance(d, ast.Attribute) and d.attr == "setter"), None)
                    if setter is not None:
                        cenv.set(f"__set_{x.name}", fn)
                        continue
                    cenv.set(x.name, fn)
                elif isinstance(x, ast.Expr) and isinstance(x.value, ast.Constant):
                    continue
                elif isinstance(x, (ast.Assign, ast.AnnAssign)):
                    try:
                        self.stmt(x, cenv)
                    except Unsupported:
                        continue
                else:
                    raise Unsupported(f"class body statement {type(x).__name__}")
            cls_obj = ClassObj(st.name, cenv.vars, bases)
            is_dc = any((isinstance(d, ast.Name) and d.id == "dataclass") or (isinstance(d, ast.Attribute) and d.attr == "dataclass") or (isinstance(d, ast.Call) and ((isinstance(d.func, ast.Name) and d.func.id == "dataclass") or (isinstance(d.func, ast.Attribute) and d.func.attr == "dataclass"))) for d in st.decorator_list)
            if is_dc and "__init__" not in cenv.vars:
                fields = []
                for c in reversed(cls_obj.mro()):
                    fields += [f for f in getattr(c, "dc_fields", []) if f[0] not in [g[0] for g in fields]]
                own = []
                for x in st.body:
                    if isinstance(x, ast.AnnAssign) and isinstance(x.target, ast.Name):
                        own.append((x.target.id, x.value))
                fields = [f for f in fields if f[0] not in [o[0] for o in own]] + own
                cls_obj.dc_fields = fields
                interp = self

                def _dc_init(inst, *args, **kwargs):
                    names = [f for f, _ in fields]
                    vals = {}
                    if len(args) > len(names):
                        raise PyRaise("TypeError")
                    for f, a in zip(names, args):
                        vals[f] = a
                    for k, v in kwargs.items():
                        if k not in names or k in vals:
                            raise PyRaise("TypeError")
                        vals[k] = v
                    for f, d in fields:
                        if f in vals:
                            continue
                        if d is None:
                            raise PyRaise("TypeError")
                        if isinstance(d, ast.Call) and isinstance(d.func, ast.Name) and d.func.id == "field":
                            kw = {k.arg: k.value for k in d.keywords}
                            if "default_factory" in kw:
                                vals[f] = interp.call(interp.ev(kw["default_factory"], env), [])
                            elif "default" in kw:
                                vals[f] = interp.ev(kw["default"], env)
                            else:
                                raise PyRaise("TypeError")
                        else:
                            vals[f] = interp.ev(d, env)
                    for f in names:
                        interp.set_attribute(inst, f, vals[f])
                    if "__post_init__" in inst.cls.attrs:
                        interp.call(inst.cls.attrs["__post_init__"], [inst])

                cls_obj.attrs["__init__"] = _bound(_dc_init)
                cls_obj.own["__init__"] = cls_obj.attrs["__init__"]
            env.set(st.name, cls_obj)
        elif isinstance(st, ast.Raise):
            if st.exc is None:
                cur = getattr(self, "_handling", None)
                if cur is None:
                    raise Unsupported("bare raise outside a handler")
                raise PyRaise(cur.exc_name, st, cur.exc)
            f = st.exc.func if isinstance(st.exc, ast.Call) else st.exc
            name = f.id if isinstance(f, ast.Name) else (f.attr if isinstance(f, ast.Attribute) else "Exception")
            try:
                v = self.ev(st.exc, env)
            except Unsupported:
                v = None
            if isinstance(v, ExcClass):
                v = ExcObj(v)
            if isinstance(v, ExcObj):
                if st.cause is not None:
                    try:
                        v.cause = self.ev(st.cause, env)
                    except Unsupported:
                        pass
                raise PyRaise(v.cls.name, st, v)
            raise PyRaise(name, st)
        elif isinstance(st, ast.Try):
            try:
                try:
                    self.run(st.body, env)
                except PyRaise as e:
                    for h in st.handlers:
                        names = []
                        if h.type is None:
                            names = ["BaseException"]
                        elif isinstance(h.type, ast.Tuple):
                            names = [x.id if isinstance(x, ast.Name) else getattr(x, "attr", "?") for x in h.type.elts]
                        else:
                            names = [h.type.id if isinstance(h.type, ast.Name) else getattr(h.type, "attr", "?")]
                        if any(nm in exc_ancestors(e.exc_name) for nm in names):
                            if h.name:
                                env.set(h.name, e.exc)
                            prev = getattr(self, "_handling", None)
                            self._handling = e
                            try:
                                self.run(h.body, env)
                            finally:
                                self._handling = prev
                                if h.name:
                                    # `except E as name` deletes the name when the handler is left
                                    env.vars.pop(h.name, None)
                            break
                    else:
                        raise
                else:
                    self.run(st.orelse, env)
            finally:
                self.run(st.finalbody, env)
        elif isinstance(st, ast.With):
            self._with(st, 0, env)
        elif isinstance(st, ast.Match):
            subject = self.ev(st.subject, env)
            for case in st.cases:
                binds = {}
                if self._match(case.pattern, subject, binds, env):
                    for k, v in binds.items():
                        env.set(k, v)
                    if case.guard is None or self.truth(self.ev(case.guard, env)):
                        self.run(case.body, env)
                        break
        elif isinstance(st, (ast.Import, ast.ImportFrom, ast.Global, ast.Nonlocal)):
            if isinstance(st, ast.Nonlocal):
                raise Unsupported("nonlocal")
            return
        elif isinstance(st, ast.Assert):
            return
        elif isinstance(st, ast.Delete):
            for t in st.targets:
                if isinstance(t, ast.Subscript):
                    c = self.ev(t.value, env)
                    k = self.ev(t.slice, env)
                    try:
                        del c[k]
                    except KeyError:
                        raise PyRaise("KeyError", st) from None
                else:
                    raise Unsupported("del of non-subscript")
        else:
            raise Unsupported(f"statement {type(st).__name__}")

    def _with(self, st, i, env):
        if i == len(st.items):
            self.run(st.body, env)
            return
        item = st.items[i]
        mgr = self.ev(item.context_expr, env)
        entered = self.call(self.getattr(mgr, "__enter__"), [])
        if item.optional_vars is not None:
            self.assign(item.optional_vars, entered, env)
        try:
            self._with(st, i + 1, env)
        except PyRaise as e:
            swallow = self.call(self.getattr(mgr, "__exit__"), [e.exc.cls, e.exc, None])
            if not self.truth(swallow):
                raise
            return
        except (_Return, _Break, _Continue):
            self.call(self.getattr(mgr, "__exit__"), [None, None, None])
            raise
        self.call(self.getattr(mgr, "__exit__"), [None, None, None])

    def _match(self, pat, v, binds, env):
        if isinstance(pat, ast.MatchValue):
            return self.compare(ast.Eq(), v, self.ev(pat.value, env))
        if isinstance(pat, ast.MatchSingleton):
            return v is pat.value
        if isinstance(pat, ast.MatchAs):
            if pat.pattern is not None and not self._match(pat.pattern, v, binds, env):
                return False
            if pat.name is not None:
                binds[pat.name] = v
            return True
        if isinstance(pat, ast.MatchOr):
            for p in pat.patterns:
                b2 = {}
                if self._match(p, v, b2, env):
                    binds.update(b2)
                    return True
            return False
        if isinstance(pat, ast.MatchClass):
            cls = self.ev(pat.cls, env)
            if not BUILTINS["isinstance"](v, cls):
                return False
            if pat.patterns:
                # positional sub-patterns: only the built-in single-value form `int(x)` / `str(x)` ... binds the subject
                if len(pat.patterns) == 1 and isinstance(cls, type):
                    return self._match(pat.patterns[0], v, binds, env)
                raise Unsupported("positional class pattern")
            for attr, p in zip(pat.kwd_attrs, pat.kwd_patterns):
                try:
                    av = self.getattr(v, attr)
                except PyRaise:
                    return False
                if not self._match(p, av, binds, env):
                    return False
            return True
        if isinstance(pat, ast.MatchSequence):
            if not isinstance(v, (list, tuple)) or isinstance(v, str):
                return False
            vals = list(v)
            star = [i for i, p in enumerate(pat.patterns) if isinstance(p, ast.MatchStar)]
            if star:
                i = star[0]
                after = len(pat.patterns) - i - 1
                if len(vals) < len(pat.patterns) - 1:
                    return False
                for p, x in zip(pat.patterns[:i], vals[:i]):
                    if not self._match(p, x, binds, env):
                        return False
                if pat.patterns[i].name is not None:
                    binds[pat.patterns[i].name] = vals[i : len(vals) - after]
                for p, x in zip(pat.patterns[i + 1 :], vals[len(vals) - after :]):
                    if not self._match(p, x, binds, env):
                        return False
                return True
            if len(vals) != len(pat.patterns):
                return False
            return all(self._match(p, x, binds, env) for p, x in zip(pat.patterns, vals))
        if isinstance(pat, ast.MatchMapping):
            if not isinstance(v, dict):
                return False
            for k, p in zip(pat.keys, pat.patterns):
                kk = self.ev(k, env)
                if kk not in v or not self._match(p, v[kk], binds, env):
                    return False
            if pat.rest is not None:
                used = [self.ev(k, env) for k in pat.keys]
                binds[pat.rest] = {k: x for k, x in v.items() if k not in used}
            return True
        raise Unsupported(f"pattern {type(pat).__name__}")

    def assign(self, t, v, env):
        if isinstance(t, ast.Name):
            env.set(t.id, v)
        elif isinstance(t, (ast.Tuple, ast.List)):
            vals = list(self.iterate(v))
            star = [i for i, e in enumerate(t.elts) if isinstance(e, ast.Starred)]
            if star:
                i = star[0]
                after = len(t.elts) - i - 1
                if len(vals) < len(t.elts) - 1:
                    raise PyRaise("ValueError", t)
                for e, x in zip(t.elts[:i], vals[:i]):
                    self.assign(e, x, env)
                self.assign(t.elts[i].value, vals[i : len(vals) - after], env)
                for e, x in zip(t.elts[i + 1 :], vals[len(vals) - after :]):
                    self.assign(e, x, env)
                return
            if len(vals) != len(t.elts):
                raise PyRaise("ValueError", t)
            for e, x in zip(t.elts, vals):
                self.assign(e, x, env)
        elif isinstance(t, ast.Subscript):
            c = self.ev(t.value, env)
            k = self.ev(t.slice, env)
            if isinstance(c, Instance) and "__setitem__" in c.cls.attrs:
                self.call(c.cls.attrs["__setitem__"], [c, k, v])
                return
            if isinstance(c, HObj) and "__setitem__" in c.methods:
                c.methods["__setitem__"](k, v)
                return
            if isinstance(k, slice):
                raise Unsupported("slice store into a built-in container")
            if not isinstance(c, (dict, list)):
                raise Unsupported(f"subscript store into {type(c).__name__}")
            try:
                c[k] = v
            except (IndexError, TypeError):
                raise PyRaise("IndexError", t) from None
        elif isinstance(t, ast.Attribute):
            self.set_attribute(self.ev(t.value, env), t.attr, v)
        else:
            raise Unsupported(f"assignment target {type(t).__name__}")

    # ------------------------------------------------------------------ expressions
    def truth(self, v):
        if isinstance(v, (Token, Obj, Stub, Closure, Instance, ClassObj, BoundMethod, HObj, ExcObj, ExcClass, NamedTupleClass)):
            return True
        if isinstance(v, float):
            return bool(v)
        if isinstance(v, (bool, int, str, tuple, list, dict, set, frozenset, type(None))):
            return bool(v)
        raise Unsupported(f"truth value of {type(v).__name__}")

    def iterate(self, v):
        if isinstance(v, HObj) and v.iter_hook is not None:
            return list(v.iter_hook())
        if isinstance(v, NamedTupleObj):
            return list(v)
        if isinstance(v, (tuple, list, dict, set, frozenset, range, str)):
            return list(v)
        if isinstance(v, (zip, enumerate, map, filter, itertools.zip_longest, itertools.chain, reversed)) or hasattr(v, "__next__"):
            return list(v)
        if isinstance(v, type({}.items())) or isinstance(v, type({}.keys())) or isinstance(v, type({}.values())):
            return list(v)
        raise PyRaise("TypeError") if isinstance(v, (Token, type(None), int)) else Unsupported(f"iteration over {type(v).__name__}")

    def binop(self, op, a, b):
        dunder = {ast.Add: "add", ast.Sub: "sub", ast.Mult: "mul", ast.Div: "truediv", ast.FloorDiv: "floordiv", ast.Mod: "mod", ast.MatMult: "matmul"}.get(type(op))
        if dunder and isinstance(a, Instance) and f"__{dunder}__" in a.cls.attrs:
            return self.call(a.cls.attrs[f"__{dunder}__"], [a, b])
        if dunder and isinstance(b, Instance) and f"__r{dunder}__" in b.cls.attrs:
            return self.call(b.cls.attrs[f"__r{dunder}__"], [b, a])
        if isinstance(op, ast.BitOr) and all(isinstance(x, (type, ClassObj, ExcClass, NamedTupleClass, tuple)) for x in (a, b)):
            # `A | B` of classes: a union type, used as the second argument of isinstance
            return (a if isinstance(a, tuple) else (a,)) + (b if isinstance(b, tuple) else (b,))
        num = (int, float)
        if isinstance(a, num) and isinstance(b, num) and not isinstance(a, bool) and not isinstance(b, bool):
            try:
                if isinstance(op, ast.Add):
                    return a + b
                if isinstance(op, ast.Sub):
                    return a - b
                if isinstance(op, ast.Mult):
                    return a * b
                if isinstance(op, ast.Div):
                    return a / b
                if isinstance(op, ast.FloorDiv):
                    return a // b
                if isinstance(op, ast.Mod):
                    return a % b
                if isinstance(op, ast.Pow):
                    return a**b
            except ZeroDivisionError:
                raise PyRaise("ZeroDivisionError") from None
        try:
            if isinstance(op, ast.Add):
                if isinstance(a, (int, list, tuple, str)) and type(a) is type(b) or (isinstance(a, int) and isinstance(b, int)):
                    return a + b
            if isinstance(op, ast.Sub) and isinstance(a, int) and isinstance(b, int):
                return a - b
            if isinstance(op, ast.Sub) and isinstance(a, (set, frozenset)) and isinstance(b, (set, frozenset)):
                return a - b
            if isinstance(op, ast.Mult) and ((isinstance(a, (list, tuple)) and isinstance(b, int)) or (isinstance(a, int) and isinstance(b, (int, list, tuple)))):
                return a * b
            if isinstance(op, ast.BitOr) and isinstance(a, (set, frozenset, dict)) and type(a) is type(b):
                return a | b
            if isinstance(op, ast.BitAnd) and isinstance(a, (set, frozenset)) and isinstance(b, (set, frozenset)):
                return a & b
            if isinstance(op, ast.Mod) and isinstance(a, str):
                return a % (b if not isinstance(b, Token) else str(b))
        except TypeError:
            raise PyRaise("TypeError") from None
        raise Unsupported(f"operator {type(op).__name__} on {type(a).__name__}, {type(b).__name__}")

    def ev(self, e, env):
        self.budget -= 1
        if self.budget < 0:
            raise Unsupported("step budget exhausted")
        if isinstance(e, ast.Constant):
            return e.value
        if isinstance(e, ast.Name):
            try:
                return env.lookup(e.id)
            except Unsupported:
                if e.id in TYPE_NAMES:
                    return TYPE_NAMES[e.id]
                if e.id in BUILTINS:
                    return BUILTINS[e.id]
                if e.id in EXC_BASES:
                    return ExcClass(e.id)
                raise
        if isinstance(e, ast.NamedExpr):
            v = self.ev(e.value, env)
            env.set(e.target.id, v)
            return v
        if isinstance(e, ast.Tuple):
            return tuple(self._elts(e.elts, env))
        if isinstance(e, ast.List):
            return list(self._elts(e.elts, env))
        if isinstance(e, ast.Set):
            return set(self._elts(e.elts, env))
        if isinstance(e, ast.Dict):
            d = {}
            for k, v in zip(e.keys, e.values):
                if k is None:
                    d.update(self.ev(v, env))
                else:
                    d[self.ev(k, env)] = self.ev(v, env)
            return d
        if isinstance(e, ast.JoinedStr):
            out = ""
            for p in e.values:
                if isinstance(p, ast.FormattedValue):
                    pv = self.ev(p.value, env)
                    out += self.call(pv.cls.attrs["__str__"], [pv]) if isinstance(pv, Instance) and "__str__" in pv.cls.attrs else str(pv)
                else:
                    out += str(p.value)
            return out
        if isinstance(e, ast.Attribute):
            o = self.ev(e.value, env)
            return self.getattr(o, e.attr)
        if isinstance(e, ast.Slice):
            lo = self.ev(e.lower, env) if e.lower is not None else None
            hi = self.ev(e.upper, env) if e.upper is not None else None
            stp = self.ev(e.step, env) if e.step is not None else None
            return slice(lo, hi, stp)
        if isinstance(e, ast.Subscript):
            c = self.ev(e.value, env)
            if isinstance(c, Instance) and "__getitem__" in c.cls.attrs:
                return self.call(c.cls.attrs["__getitem__"], [c, self.ev(e.slice, env)])
            if isinstance(c, HObj) and "__getitem__" in c.methods:
                return c.methods["__getitem__"](self.ev(e.slice, env))
            if isinstance(e.slice, ast.Slice):
                sl = self.ev(e.slice, env)
                if not isinstance(c, (list, tuple, str)):
                    raise Unsupported("slice of non-sequence")
                return c[sl]
            k = self.ev(e.slice, env)
            if isinstance(c, (dict,)):
                try:
                    return c[k]
                except KeyError:
                    raise PyRaise("KeyError", e) from None
                except TypeError:
                    raise Unsupported("unhashable key") from None
            if isinstance(c, (list, tuple, str)):
                if not isinstance(k, int):
                    raise PyRaise("TypeError", e)
                try:
                    return c[k]
                except IndexError:
                    raise PyRaise("IndexError", e) from None
            if isinstance(c, Token):
                raise PyRaise("TypeError", e)
            raise Unsupported(f"subscript of {type(c).__name__}")
        if isinstance(e, ast.UnaryOp):
            v = self.ev(e.operand, env)
            if isinstance(e.op, ast.Not):
                return not self.truth(v)
            if isinstance(e.op, ast.USub) and isinstance(v, (int, float)):
                return -v
            raise Unsupported("unary operator")
        if isinstance(e, ast.BoolOp):
            v = None
            for x in e.values:
                v = self.ev(x, env)
                t = self.truth(v)
                if isinstance(e.op, ast.Or) and t:
                    return v
                if isinstance(e.op, ast.And) and not t:
                    return v
            return v
        if isinstance(e, ast.IfExp):
            return self.ev(e.body if self.truth(self.ev(e.test, env)) else e.orelse, env)
        if isinstance(e, ast.Compare):
            left = self.ev(e.left, env)
            for op, r in zip(e.ops, e.comparators):
                right = self.ev(r, env)
                if not self.compare(op, left, right):
                    return False
                left = right
            return True
        if isinstance(e, ast.BinOp):
            return self.binop(e.op, self.ev(e.left, env), self.ev(e.right, env))
        if isinstance(e, ast.Call):
            return self.ev_call(e, env)
        if isinstance(e, (ast.ListComp, ast.GeneratorExp, ast.SetComp, ast.DictComp)):
            out = []
            self._comp(e, 0, Env(env), out)
            if isinstance(e, ast.ListComp):
                return out
            if isinstance(e, ast.GeneratorExp):
                return iter(out)
            if isinstance(e, ast.SetComp):
                return set(out)
            return dict(out)
        if isinstance(e, ast.Lambda):
            return Closure(e, env, self)
        if isinstance(e, ast.Yield):
            env.lookup("__yield__").append(self.ev(e.value, env) if e.value is not None else None)
            return None
        if isinstance(e, ast.YieldFrom):
            env.lookup("__yield__").extend(self.iterate(self.ev(e.value, env)))
            return None
        if isinstance(e, ast.Starred):
            raise Unsupported("starred expression")
        raise Unsupported(f"expression {type(e).__name__}")

    def _elts(self, elts, env):
        out = []
        for x in elts:
            if isinstance(x, ast.Starred):
                out.extend(self.iterate(self.ev(x.value, env)))
            else:
                out.append(self.ev(x, env))
        return out

    def _comp(self, e, i, env, out):
        if i == len(e.generators):
            if isinstance(e, ast.DictComp):
                out.append((self.ev(e.key, env), self.ev(e.value, env)))
            else:
                out.append(self.ev(e.elt, env))
            return
        g = e.generators[i]
        for x in self.iterate(self.ev(g.iter, env)):
            self.assign(g.target, x, env)
            if all(self.truth(self.ev(c, env)) for c in g.ifs):
                self._comp(e, i + 1, env, out)

    def compare(self, op, a, b):
        if isinstance(op, ast.Is):
            return a is b
        if isinstance(op, ast.IsNot):
            return a is not b
        if isinstance(op, ast.In):
            return self._contains(b, a)
        if isinstance(op, ast.NotIn):
            return not self._contains(b, a)
        if isinstance(op, (ast.Eq, ast.NotEq)):
            r = (a is b) if isinstance(a, (Token, Obj, Stub, Instance, ClassObj, HObj, ExcObj, ExcClass)) or isinstance(b, (Token, Obj, Stub, Instance, ClassObj, HObj, ExcObj, ExcClass)) else a == b
            return r if isinstance(op, ast.Eq) else not r
        if isinstance(a, (int, str, tuple, list)) and type(a) is type(b) and not isinstance(a, bool) or (isinstance(a, (int, float)) and isinstance(b, (int, float))):
            try:
                return {ast.Lt: a < b, ast.LtE: a <= b, ast.Gt: a > b, ast.GtE: a >= b}[type(op)]
            except TypeError:
                raise PyRaise("TypeError") from None
        raise Unsupported("ordering of abstract values")

    def _contains(self, c, x):
        if isinstance(c, Instance) and "__contains__" in c.cls.attrs:
            return self.truth(self.call(c.cls.attrs["__contains__"], [c, x]))
        if isinstance(c, (dict, set, frozenset, list, tuple, str)):
            try:
                return x in c
            except TypeError:
                raise Unsupported("unhashable in membership test") from None
        if isinstance(c, type({}.keys())) or isinstance(c, type({}.values())) or isinstance(c, type({}.items())):
            return x in c
        raise Unsupported(f"membership in {type(c).__name__}")

    def getattr(self, o, name):
        if isinstance(o, Instance):
            if name == "__dict__":
                return o.dict
            if name == "__class__":
                return o.cls
            if name in o.dict:
                return o.dict[name]
            if name in o.cls.attrs:
                v = o.cls.attrs[name]
                if isinstance(v, Closure):
                    if getattr(v, "is_property", False):
                        return self.call(v, [o])
                    if getattr(v, "is_static", False):
                        return v
                    if getattr(v, "is_classmethod", False):
                        return BoundMethod(v, o.cls)
                    return BoundMethod(v, o)
                return v
            if "__getattr__" in o.cls.attrs:
                return self.call(o.cls.attrs["__getattr__"], [o, name])
            raise PyRaise("AttributeError")
        if isinstance(o, ClassObj):
            if name in ("__name__", "__qualname__"):
                return o.name
            if name in o.attrs:
                v = o.attrs[name]
                if isinstance(v, Closure) and getattr(v, "is_classmethod", False):
                    return BoundMethod(v, o)
                return v
            raise PyRaise("AttributeError")
        if isinstance(o, HObj):
            if name in o.attrs:
                return o.attrs[name]
            if name in o.methods:
                return _bound(o.methods[name])
            raise PyRaise("AttributeError")
        if isinstance(o, NamedTupleObj):
            if name in o.ntc.fields:
                return o[o.ntc.fields.index(name)]
            if name == "_asdict":
                return _bound(lambda: dict(zip(o.ntc.fields, o)))
            if name == "_replace":
                return _bound(lambda **kw: o.ntc.make([], {**dict(zip(o.ntc.fields, o)), **kw}))
            raise PyRaise("AttributeError")
        if isinstance(o, ExcObj):
            if name == "args":
                return o.args
            if name == "__cause__":
                return o.cause
            if name == "__class__":
                return o.cls
            raise PyRaise("AttributeError")
        if isinstance(o, ExcClass):
            if name in ("__name__", "__qualname__"):
                return o.name
            raise PyRaise("AttributeError")
        if isinstance(o, SuperProxy):
            inst = o.inst
            base_attrs = {}
            for c in o.start.mro()[1:] if getattr(o, "start", None) is not None else []:
                for k, v in c.own.items():
                    base_attrs.setdefault(k, v)
            if name in base_attrs and isinstance(base_attrs[name], Closure):
                return BoundMethod(base_attrs[name], inst)
            if name == "__setattr__":
                return _bound(lambda nm, v: inst.dict.__setitem__(nm, v))
            if name == "__getattribute__":
                return _bound(lambda nm: self.getattr_raw(inst, nm))
            if name == "__init__":
                return _bound(lambda *a, **k: None)
            raise Unsupported(f"super().{name}")
        if isinstance(o, BoundMethod):
            if name in ("__name__", "__qualname__"):
                return o.fn.node.name
            raise Unsupported(f"attribute {name} of bound method")
        if isinstance(o, Obj):
            if name in o._attrs:
                return o._attrs[name]
            raise Unsupported(f"attribute {name} of {o!r}")
        if isinstance(o, Stub):
            if name in ("__name__", "__qualname__"):
                return o.name
            raise Unsupported(f"attribute {name} of wrapped method")
        if isinstance(o, Token):
            if name in o._attrs:
                return o._attrs[name]
            if name == "copy":
                return _bound(lambda: BUILTINS["copy_copy"](o))
            raise Unsupported(f"attribute {name} of token {o!r}")
        if isinstance(o, Closure):
            if name in ("__name__", "__qualname__"):
                return o.node.name
            raise Unsupported(f"attribute {name} of closure")
        if isinstance(o, list) and name == "sort":
            def _sort(key=None, reverse=False):
                o[:] = self._sorted(o, key, reverse)

            return _bound(_sort)
        if isinstance(o, list) and name == "reverse":
            return _bound(o.reverse)
        for tp, names in SAFE_METHODS.items():
            if type(o) is tp and name in names:
                return _bound(getattr(o, name))
        if callable(o) and getattr(o, "_absexec_builtin", False) and name in ("from_iterable",) and hasattr(o, name):
            return getattr(o, name)
        if isinstance(o, type) and o is dict and name == "fromkeys":
            return _bound(dict.fromkeys)
        raise Unsupported(f"attribute {name} of {type(o).__name__}")

    def _sorted(self, xs, key=None, reverse=False):
        xs = list(xs)
        ks = [self.call(key, [x]) if key is not None else x for x in xs]
        if not all(isinstance(k, (int, float, str)) or (isinstance(k, tuple) and all(isinstance(y, (int, float, str)) for y in k)) for k in ks):
            raise Unsupported("sorting by abstract values")
        try:
            order = sorted(range(len(xs)), key=lambda i: ks[i], reverse=reverse)
        except TypeError:
            raise PyRaise("TypeError") from None
        return [xs[i] for i in order]

    def getattr_raw(self, inst, name):
        if name in inst.dict:
            return inst.dict[name]
        if name == "__dict__":
            return inst.dict
        raise PyRaise("AttributeError")

    def ev_call(self, e: ast.Call, env):
        if isinstance(e.func, ast.Name) and e.func.id == "super" and not e.args:
            try:
                env.lookup("super")
            except Unsupported:
                # zero-argument super(): the instance is the first parameter of the enclosing method
                ee = env
                while ee is not None and "self" not in ee.vars:
                    ee = ee.parent
                if ee is None:
                    raise Unsupported("super() outside a method") from None
                inst = ee.vars["self"]
                start = None
                if isinstance(inst, Instance):
                    # the class whose method is executing: the closest enclosing closure with a defining class
                    dc = getattr(self, "_defining", [None])[-1]
                    start = next((c for c in inst.cls.mro() if c.name == dc), inst.cls)
                return SuperProxy(inst, start)
        fn = self.ev(e.func, env)
        args = self._elts(e.args, env)
        if fn is BUILTINS.get("map") and len(args) >= 2:
            seqs = [self.iterate(a) for a in args[1:]]
            return iter([self.call(args[0], list(xs)) for xs in zip(*seqs)])
        if fn is BUILTINS.get("filter") and len(args) == 2:
            return iter([x for x in self.iterate(args[1]) if (self.truth(self.call(args[0], [x])) if args[0] is not None else self.truth(x))])
        if fn is BUILTINS.get("sorted") and args:
            kw = {k.arg: self.ev(k.value, env) for k in e.keywords if k.arg}
            return self._sorted(self.iterate(args[0]), kw.get("key"), bool(kw.get("reverse", False)))
        if fn is BUILTINS.get("len") and len(args) == 1:
            if isinstance(args[0], Instance) and "__len__" in args[0].cls.attrs:
                return self.call(args[0].cls.attrs["__len__"], [args[0]])
            if isinstance(args[0], HObj) and "__len__" in args[0].methods:
                return args[0].methods["__len__"]()
        if fn is BUILTINS.get("vars") and len(args) == 1:
            if isinstance(args[0], Instance):
                return args[0].dict
            raise PyRaise("TypeError")
        if fn is BUILTINS.get("hasattr") and len(args) == 2:
            try:
                self.getattr(args[0], args[1])
                return True
            except PyRaise as exc:
                if exc.exc_name == "AttributeError":
                    return False
                raise
            except Unsupported:
                return False
        if fn is BUILTINS.get("getattr") and len(args) in (2, 3):
            try:
                return self.getattr(args[0], args[1])
            except PyRaise as exc:
                if exc.exc_name == "AttributeError" and len(args) == 3:
                    return args[2]
                raise
        if fn is BUILTINS.get("setattr") and len(args) == 3:
            self.set_attribute(args[0], args[1], args[2])
            return None
        kwargs = {}
        for k in e.keywords:
            if k.arg is None:
                kwargs.update(self.ev(k.value, env))
            else:
                kwargs[k.arg] = self.ev(k.value, env)
        if isinstance(fn, type) and fn in TYPE_NAMES.values():
            if fn in (tuple, list, set, frozenset) and args:
                return fn(self.iterate(args[0]))
            if fn is dict:
                d = {}
                if args:
                    a0 = args[0]
                    d.update(a0 if isinstance(a0, dict) else [tuple(self.iterate(p)) for p in self.iterate(a0)])
                d.update(kwargs)
                return d
            if fn is Counter:
                if not args or args[0] is None:
                    return Counter()
                if isinstance(args[0], dict):
                    return Counter(args[0])
                raise Unsupported("Counter of an abstract value")
            if fn is str and args:
                if isinstance(args[0], Instance) and "__str__" in args[0].cls.attrs:
                    return self.call(args[0].cls.attrs["__str__"], [args[0]])
                return str(args[0])
            if fn is bool and args:
                return self.truth(args[0])
            if fn is int:
                return BUILTINS["int"](*args)
            if fn is float:
                return BUILTINS["float"](*args)
            if not args:
                return fn()
            raise Unsupported(f"constructor {fn.__name__}")
        try:
            return self.call(fn, args, kwargs)
        except KeyError:
            raise PyRaise("KeyError", e) from None
        except (IndexError,):
            raise PyRaise("IndexError", e) from None
        except StopIteration:
            raise PyRaise("StopIteration", e) from None
        except ValueError:
            raise PyRaise("ValueError", e) from None
        except TypeError as exc:
            raise Unsupported(f"call failed in the abstract domain: {exc}") from None


def _walk_own(fn_node):
    """Nodes of a function body without nested function / class bodies."""
    stack = list(fn_node.body)
    while stack:
        n = stack.pop()
        yield n
        for c in ast.iter_child_nodes(n):
            if not isinstance(c, (ast.FunctionDef, ast.AsyncFunctionDef, ast.Lambda, ast.ClassDef)):
                stack.append(c)


def _bound(f):
    def g(*a, **k):
        return f(*a, **k)

    g._absexec_builtin = True
    return g


def _as_load(t):
    import copy as _copy

    t2 = _copy.deepcopy(t)
    for n in ast.walk(t2):
        if hasattr(n, "ctx"):
            n.ctx = ast.Load()
    return t2


def _builtin(f):
    try:
        f._absexec_builtin = True
        return f
    except AttributeError:  # bound methods do not take attributes
        return _bound(f)


def _mk_builtins():
    b = {}

    @_builtin
    def _len(x):
        if isinstance(x, (tuple, list, dict, set, frozenset, str)):
            return len(x)
        raise PyRaise("TypeError")

    @_builtin
    def _isinstance(x, tp):
        tps = tp if isinstance(tp, tuple) else (tp,)
        flat = []
        for t in tps:
            flat.extend(t if isinstance(t, tuple) else (t,))
        tps = tuple(flat)
        if any(t is ArrayType for t in tps):
            if isinstance(x, Token) and x._attrs.get("array"):
                return True
            tps = tuple(t for t in tps if t is not ArrayType)
            if not tps:
                return False
        if any(isinstance(t, (ClassObj, ExcClass, NamedTupleClass)) for t in tps):
            if isinstance(x, Instance) and any(isinstance(t, ClassObj) and t in x.cls.mro() for t in tps):
                return True
            if isinstance(x, ExcObj) and any(isinstance(t, ExcClass) and t.name in exc_ancestors(x.cls.name) for t in tps):
                return True
            if isinstance(x, NamedTupleObj) and any(t is x.ntc for t in tps):
                return True
            tps = tuple(t for t in tps if not isinstance(t, (ClassObj, ExcClass, NamedTupleClass)))
            if not tps:
                return False
        if not all(isinstance(t, type) for t in tps):
            raise Unsupported("isinstance against an abstract type")
        return isinstance(x, tps) and not isinstance(x, (Token, Obj, Stub, Closure, Instance, HObj, ExcObj))

    @_builtin
    def _zip(*its, strict=False):
        lists = [_iter(i) for i in its]
        if strict and len({len(x) for x in lists}) > 1:
            raise ValueError("zip() arguments have different lengths")
        return list(zip(*lists))

    @_builtin
    def _zip_longest(*its, fillvalue=None):
        return list(itertools.zip_longest(*[_iter(i) for i in its], fillvalue=fillvalue))

    @_builtin
    def _enumerate(it, start=0):
        return list(enumerate(_iter(it), start))

    @_builtin
    def _range(*a):
        if not all(isinstance(x, int) for x in a):
            raise Unsupported("range over abstract values")
        return list(range(*a))

    _ids: dict = {}

    @_builtin
    def _id(x):
        if hasattr(x, "_id_token"):
            return x._id_token
        if id(x) not in _ids:
            _ids[id(x)] = (Token(f"id({x!r})"), x)  # keeps x alive so that the Python id stays unique
        return _ids[id(x)][0]

    @_builtin
    def _type(x):
        if isinstance(x, Instance):
            return x.cls
        if isinstance(x, Obj) and "__class__" in x._attrs:
            return x._attrs["__class__"]
        if isinstance(x, (tuple, list, dict, set, str, int)):
            return type(x)
        raise Unsupported("type() of an abstract value")

    @_builtin
    def _sorted(it, key=None, reverse=False):
        xs = _iter(it)
        if key is not None or not all(isinstance(x, (int, str)) for x in xs):
            raise Unsupported("sorting abstract values")
        return sorted(xs, reverse=reverse)

    @_builtin
    def _reversed(it):
        return list(reversed(_iter(it)))

    @_builtin
    def _chain(*its):
        return [x for it in its for x in _iter(it)]

    @_builtin
    def _from_iterable(its):
        return [x for it in _iter(its) for x in _iter(it)]

    _chain.from_iterable = _from_iterable

    @_builtin
    def _itemgetter(*keys):
        @_builtin
        def get(x):
            try:
                vals = tuple(x[k] for k in keys)
            except (KeyError, IndexError, TypeError):
                raise PyRaise("LookupError") from None
            return vals[0] if len(keys) == 1 else vals

        return get

    b.update(itemgetter=_itemgetter)

    @_builtin
    def _any(it):
        return any(_truth(x) for x in _iter(it))

    @_builtin
    def _all(it):
        return all(_truth(x) for x in _iter(it))

    @_builtin
    def _min(*a):
        xs = _iter(a[0]) if len(a) == 1 else list(a)
        if not all(isinstance(x, (int, float)) for x in xs):
            raise Unsupported("min of abstract values")
        return min(xs)

    @_builtin
    def _max(*a):
        xs = _iter(a[0]) if len(a) == 1 else list(a)
        if not all(isinstance(x, (int, float)) for x in xs):
            raise Unsupported("max of abstract values")
        return max(xs)

    @_builtin
    def _iter_(x):
        return iter(_iter(x))

    @_builtin
    def _next(it, *default):
        try:
            return next(it)
        except StopIteration:
            if default:
                return default[0]
            raise

    @_builtin
    def _getattr(o, name, *default):
        if isinstance(o, (Obj, Token)) and name in o._attrs:
            return o._attrs[name]
        if isinstance(o, Stub) and name in ("__name__", "__qualname__"):
            return o.name
        if default:
            return default[0]
        raise PyRaise("AttributeError")

    @_builtin
    def _hasattr(o, name):
        return (isinstance(o, (Obj, Token)) and name in o._attrs) or (isinstance(o, Stub) and name in ("__name__", "__qualname__"))

    @_builtin
    def _wraps(fn):
        @_builtin
        def deco(f):
            return f

        return deco

    @_builtin
    def _callable(x):
        if isinstance(x, (Closure, Stub, BoundMethod, ClassObj)):
            return True
        if isinstance(x, Token):
            return bool(x._attrs.get("callable", False))
        return False

    @_builtin
    def _counter(x=None):
        if x is None:
            return Counter()
        if isinstance(x, dict):
            return Counter(x)
        raise Unsupported("Counter of an abstract value")

    @_builtin
    def _copy(x):
        if isinstance(x, Token):
            return Token(f"copy({x._name})", **{**x._attrs, "value_of": x._attrs.get("value_of", x)})
        if isinstance(x, (dict, list, set)):
            return x.copy()
        if isinstance(x, (int, str, tuple, frozenset, type(None), bool)):
            return x
        raise Unsupported(f"copy of {type(x).__name__}")

    @_builtin
    def _setattr(o, name, v):
        raise Unsupported("setattr()")

    b.update(callable=_callable, copy_copy=_copy, setattr=_setattr, vars=_setattr)

    @_builtin
    def _int(x=0):
        if isinstance(x, (int, float, str)):
            return int(x)
        raise Unsupported("int() of an abstract value")

    @_builtin
    def _float(x=0.0):
        if isinstance(x, (int, float, str)):
            return float(x)
        raise Unsupported("float() of an abstract value")

    @_builtin
    def _abs(x):
        if isinstance(x, (int, float)):
            return abs(x)
        raise Unsupported("abs() of an abstract value")

    @_builtin
    def _round(x, n=None):
        if isinstance(x, (int, float)):
            return round(x, n) if n is not None else round(x)
        raise Unsupported("round() of an abstract value")

    @_builtin
    def _sum(it, start=0):
        xs = _iter(it)
        if not all(isinstance(x, (int, float)) for x in xs):
            raise Unsupported("sum of abstract values")
        return sum(xs, start)

    @_builtin
    def _print(*a, **k):
        return None

    @_builtin
    def _nullcontext(x=None):
        return HObj("nullcontext", methods={"__enter__": lambda: x, "__exit__": lambda *a: False})

    @_builtin
    def _repr(x):
        return repr(x)

    b.update(map=_print, filter=_print, int=_int, float=_float, abs=_abs, round=_round, sum=_sum, print=_print, nullcontext=_nullcontext, repr=_repr)

    @_builtin
    def _islice(it, *a):
        return list(itertools.islice(_iter(it), *a))

    b.update(len=_len, isinstance=_isinstance, zip=_zip, zip_longest=_zip_longest, enumerate=_enumerate, range=_range, id=_id, type=_type, sorted=_sorted, reversed=_reversed, chain=_chain, any=_any, all=_all, min=_min, max=_max, iter=_iter_, next=_next, getattr=_getattr, hasattr=_hasattr, wraps=_wraps, islice=_islice)
    return b


def _iter(v):
    if isinstance(v, (tuple, list, set, frozenset, dict, str, range)):
        return list(v)
    if hasattr(v, "__next__") or isinstance(v, (type({}.items()), type({}.keys()), type({}.values()))):
        return list(v)
    if isinstance(v, (Token, type(None), int)):
        raise PyRaise("TypeError")
    raise Unsupported(f"iteration over {type(v).__name__}")


def _truth(v):
    if isinstance(v, (Token, Obj, Stub, Closure)):
        return True
    return bool(v)


BUILTINS = _mk_builtins()
