"""Cross-resolution of the program model (E1) against mypy's semantic analyser.

The rules trust two things that E1 computes from the syntax alone: the method resolution order
of every class and, for a (class, member) pair, the class whose definition is used. mypy (present
in the repository's own environment) computes both independently from the type-checked program.
This module builds mici with mypy as a library, without executing it, and reports every
disagreement. A disagreement is not a property violation; it means the model the rules are
evaluated on may misrepresent the program, so the run is an ANALYSIS-ERROR (exit 2).

Run in a sub-process (mypy's teardown is slow and it must not leak state into the checker):
    python -m mverif.mypyx   -> one JSON line on stdout
"""

from __future__ import annotations

import json
import os
import sys


def mypy_facts(repo: str) -> dict:
    from mypy import build
    from mypy.find_sources import create_source_list
    from mypy.nodes import Decorator, FuncDef, OverloadedFuncDef, TypeInfo, Var
    from mypy.options import Options

    os.chdir(os.path.join(repo, "src"))
    opts = Options()
    opts.incremental = False
    opts.cache_dir = os.devnull
    opts.preserve_asts = True
    opts.export_types = False
    opts.ignore_missing_imports = True
    opts.follow_imports = "silent"
    opts.show_traceback = False
    srcs = create_source_list(["mici"], opts)
    res = build.build(srcs, opts)
    out = {"classes": {}, "modules": 0}
    for modname, tree in res.files.items():
        if not (modname == "mici" or modname.startswith("mici.")):
            continue
        out["modules"] += 1
        for name, sym in tree.names.items():
            node = sym.node
            if not isinstance(node, TypeInfo) or node.module_name != modname:
                continue
            mro = [t.fullname for t in node.mro]
            members = {}
            for t in node.mro:
                if not t.fullname.startswith("mici."):
                    continue
                for mname, msym in t.names.items():
                    if mname in members:
                        continue
                    n = msym.node
                    if isinstance(n, (FuncDef, Decorator, OverloadedFuncDef)):
                        synthesised = getattr(n, "line", 0) in (-1, None) or t.is_named_tuple
                        members[mname] = [t.fullname, "synth" if synthesised else "def"]
                    elif isinstance(n, Var):
                        kind = "prop" if n.is_property else ("classvar" if n.is_initialized_in_class else "selfattr")
                        if t.is_named_tuple:
                            kind = "synth"
                        members[mname] = [t.fullname, kind]
            out["classes"][node.fullname] = {"mro": mro, "members": members}
    return out


def compare(program, facts: dict) -> tuple[list[str], dict]:
    """Returns (disagreements, coverage)."""
    problems: list[str] = []
    n_mro = n_members = 0
    seen = set()
    for full, info in facts["classes"].items():
        short = full.rsplit(".", 1)[1]
        mod = full.rsplit(".", 1)[0]
        cands = [c for c in program.classes.values() if c.name == short and c.module.name == mod]
        if not cands:
            # nested or conditional classes that the model does not index are not used by any rule
            continue
        k = cands[0]
        seen.add(k.name)
        mine = [f"{c.module.name}.{c.name}" for c in k.mro]
        theirs = [t for t in info["mro"] if t.startswith("mici.")]
        n_mro += 1
        if mine != theirs:
            problems.append(f"MRO of {full}: model {mine} vs mypy {theirs}")
            continue
        for mname, (owner, kind) in info["members"].items():
            if kind in ("synth", "selfattr"):
                continue  # synthesised named-tuple members / attributes assigned on self: not part of the model
            mine_owner = next((c for c in k.mro if mname in c.methods or mname in c.class_attrs or mname in c.setters), None)
            n_members += 1
            if mine_owner is None and f"{owner}.{mname}" in getattr(program, "absorbed", ()):
                continue  # a new private helper whose body the model inlined into every caller
            if mine_owner is None:
                problems.append(f"{full}.{mname}: mypy resolves to {owner} ({kind}), the model finds no definition")
                continue
            got = f"{mine_owner.module.name}.{mine_owner.name}"
            if got != owner:
                problems.append(f"{full}.{mname}: model resolves to {got}, mypy to {owner} ({kind})")
                continue
            if kind == "def":
                f = k.resolve(mname)
                if f is None or f.cls is not mine_owner:
                    problems.append(f"{full}.{mname}: mypy finds a function in {owner}; the model's resolve() gives {f.qualname if f else None}")
    missing = sorted(c.name for c in program.classes.values() if c.name not in seen)
    if missing:
        problems.append(f"classes in the model that mypy does not know: {missing[:10]}")
    return problems, {"classes_compared": n_mro, "member_resolutions_compared": n_members, "modules": facts["modules"]}


def main() -> int:
    repo = os.environ.get("MVERIF_REPO", "/repo")
    cwd = os.getcwd()
    try:
        facts = mypy_facts(repo)
    except Exception as e:  # noqa: BLE001
        print(json.dumps({"error": f"{type(e).__name__}: {e}"[:300]}))
        sys.stdout.flush()
        os._exit(0)
    os.chdir(cwd)
    from .model import Program

    program = Program()
    problems, cov = compare(program, facts)
    # positive control: a perturbed copy of mypy's facts (one MRO reversed, one member re-owned)
    # must be reported, otherwise the comparison itself is broken
    import copy

    bad = copy.deepcopy(facts)
    victim = "mici.systems.GaussianDenseConstrainedEuclideanMetricSystem"
    bad["classes"][victim]["mro"].reverse()
    c1, _ = compare(program, bad)
    bad = copy.deepcopy(facts)
    bad["classes"][victim]["members"]["dh_dpos"] = ["mici.systems.EuclideanMetricSystem", "def"]
    c2, _ = compare(program, bad)
    cov["positive_control"] = bool(c1) and bool(c2)
    if not cov["positive_control"]:
        problems.append("positive control of the cross-resolution did not fire")
    print(json.dumps({"problems": problems, "coverage": cov}))
    sys.stdout.flush()
    os._exit(0)


if __name__ == "__main__":
    main()
