"""E4 - exact rational functions over named symbols (Fraction coefficients).

A value is num/den with polynomials as {monomial: Fraction}; a monomial is a sorted tuple
of (symbol, int exponent).  Square-root atoms: ``sqrt_of(x)`` creates a symbol whose square
re-expands to x, which is all that `(1 - c**2) ** 0.5` and `3 ** 0.5` need.
Equality is decided by cross-multiplication, so it is exact.
"""

from __future__ import annotations

import ast
from fractions import Fraction

from .report import AnalysisError

_SQRT_DEFS: dict[str, "Rat"] = {}


def _mono_mul(a, b):
    d = dict(a)
    for s, e in b:
        d[s] = d.get(s, 0) + e
    return tuple(sorted((s, e) for s, e in d.items() if e != 0))


class Poly:
    __slots__ = ("t",)

    def __init__(self, terms=None):
        self.t = {m: c for m, c in (terms or {}).items() if c != 0}

    @staticmethod
    def const(c):
        return Poly({(): Fraction(c)})

    @staticmethod
    def sym(s):
        return Poly({((s, 1),): Fraction(1)})

    def __add__(self, o):
        d = dict(self.t)
        for m, c in o.t.items():
            d[m] = d.get(m, 0) + c
        return Poly(d)

    def __neg__(self):
        return Poly({m: -c for m, c in self.t.items()})

    def __sub__(self, o):
        return self + (-o)

    def __mul__(self, o):
        d = {}
        for m1, c1 in self.t.items():
            for m2, c2 in o.t.items():
                m = _mono_mul(m1, m2)
                d[m] = d.get(m, 0) + c1 * c2
        return Poly(d)._expand_sqrt()

    def _expand_sqrt(self):
        # replace atom**2 by its definition (definition must be a polynomial)
        changed = True
        p = self
        guard = 0
        while changed:
            changed = False
            guard += 1
            if guard > 50:
                raise AnalysisError("sqrt expansion did not terminate")
            for m in list(p.t):
                for s, e in m:
                    if s in _SQRT_DEFS and e <= -2 and len(_SQRT_DEFS[s].num.t) == 1 and _SQRT_DEFS[s].den.is_one():
                        # atom**-2 -> 1/definition when the definition is a single monomial
                        c = p.t[m]
                        (dm, dc), = _SQRT_DEFS[s].num.t.items()
                        rest = tuple((s2, e2) for s2, e2 in m if s2 != s)
                        rem = e + 2
                        inv = tuple((s3, -e3) for s3, e3 in dm)
                        newm = _mono_mul(_mono_mul(rest, ((s, rem),) if rem else ()), inv)
                        q = dict(p.t)
                        del q[m]
                        q[newm] = q.get(newm, 0) + c / dc
                        p = Poly(q)
                        changed = True
                        break
                    if s in _SQRT_DEFS and e >= 2:
                        c = p.t[m]
                        rest = tuple((s2, e2) for s2, e2 in m if s2 != s)
                        rem = e - 2
                        base = Poly({_mono_mul(rest, ((s, rem),) if rem else ()): c})
                        d = _SQRT_DEFS[s]
                        if not d.den.is_one():
                            raise AnalysisError("sqrt of a non-polynomial")
                        q = dict(p.t)
                        del q[m]
                        newp = Poly(q)
                        prod = {}
                        for m1, c1 in base.t.items():
                            for m2, c2 in d.num.t.items():
                                mm = _mono_mul(m1, m2)
                                prod[mm] = prod.get(mm, 0) + c1 * c2
                        p = newp + Poly(prod)
                        changed = True
                        break
                if changed:
                    break
        return p

    def is_zero(self):
        return not self.t

    def is_one(self):
        return self.t == {(): Fraction(1)}

    def is_const(self):
        return all(m == () for m in self.t)

    def const_value(self):
        return self.t.get((), Fraction(0))

    def symbols(self):
        return {s for m in self.t for s, _ in m}

    def __eq__(self, o):
        return isinstance(o, Poly) and self.t == o.t

    def __hash__(self):
        return hash(tuple(sorted(self.t.items())))

    def __repr__(self):
        if not self.t:
            return "0"
        parts = []
        for m, c in sorted(self.t.items()):
            ms = "*".join(s if e == 1 else f"{s}^{e}" for s, e in m)
            parts.append(f"{c}" if not ms else (ms if c == 1 else f"{c}*{ms}"))
        return " + ".join(parts)


class Rat:
    __slots__ = ("num", "den")

    def __init__(self, num: Poly, den: Poly | None = None):
        self.num = num
        self.den = den if den is not None else Poly.const(1)
        if self.den.is_zero():
            raise AnalysisError("division by zero polynomial")
        # normalise monomial denominators
        if len(self.den.t) == 1:
            (m, c), = self.den.t.items()
            if m == ():
                self.num = Poly({k: v / c for k, v in self.num.t.items()})
                self.den = Poly.const(1)
            else:
                inv = tuple((s, -e) for s, e in m)
                self.num = Poly({_mono_mul(k, inv): v / c for k, v in self.num.t.items()})
                self.den = Poly.const(1)

    @staticmethod
    def const(c):
        return Rat(Poly.const(c))

    @staticmethod
    def sym(s):
        return Rat(Poly.sym(s))

    def __add__(self, o):
        o = _lift(o)
        if self.den == o.den:
            return Rat(self.num + o.num, self.den)
        return Rat(self.num * o.den + o.num * self.den, self.den * o.den)

    __radd__ = __add__

    def __neg__(self):
        return Rat(-self.num, self.den)

    def __sub__(self, o):
        return self + (-_lift(o))

    def __rsub__(self, o):
        return _lift(o) - self

    def __mul__(self, o):
        o = _lift(o)
        return Rat(self.num * o.num, self.den * o.den)

    __rmul__ = __mul__

    def __truediv__(self, o):
        o = _lift(o)
        if o.num.is_zero():
            raise AnalysisError("division by zero")
        return Rat(self.num * o.den, self.den * o.num)

    def __rtruediv__(self, o):
        return _lift(o) / self

    def __pow__(self, k):
        if isinstance(k, Rat):
            if not (k.num.is_const() and k.den.is_one()):
                raise AnalysisError("symbolic exponent")
            k = k.num.const_value()
        k = Fraction(k)
        if k.denominator == 1:
            n = int(k)
            if n < 0:
                return Rat.const(1) / (self ** (-n))
            out = Rat.const(1)
            for _ in range(n):
                out = out * self
            return out
        if k.denominator == 2:
            root = sqrt_of(self)
            return root ** int(k.numerator)
        raise AnalysisError(f"unsupported exponent {k}")

    def is_zero(self):
        return self.num.is_zero()

    def equals(self, o) -> bool:
        o = _lift(o)
        return (self.num * o.den - o.num * self.den).is_zero()

    def is_const(self):
        return self.num.is_const() and self.den.is_const()

    def const_value(self) -> Fraction:
        return self.num.const_value() / self.den.const_value()

    def symbols(self):
        return self.num.symbols() | self.den.symbols()

    def coeff_of(self, sym: str) -> "Rat":
        """Coefficient c such that self == c*sym + (terms without sym); requires den free
        of sym and degree <= 1 in sym."""
        if sym in self.den.symbols():
            raise AnalysisError(f"{sym} in denominator")
        a = {}
        for m, c in self.num.t.items():
            d = dict(m)
            e = d.get(sym, 0)
            if e == 0:
                continue
            if e != 1:
                raise AnalysisError(f"non-linear in {sym}")
            del d[sym]
            a[tuple(sorted(d.items()))] = c
        return Rat(Poly(a), self.den)

    def diff(self, sym: str) -> "Rat":
        """Partial derivative with respect to a symbol that does not occur in the denominator."""
        if sym in self.den.symbols():
            raise AnalysisError(f"{sym} occurs in a denominator")
        out = {}
        for m, c in self.num.t.items():
            d = dict(m)
            e = d.get(sym, 0)
            if e == 0:
                continue
            if e == 1:
                del d[sym]
            else:
                d[sym] = e - 1
            k = tuple(sorted(d.items()))
            out[k] = out.get(k, 0) + c * e
        return Rat(Poly(out), self.den)

    def subs(self, sym: str, val: "Rat") -> "Rat":
        """Substitute a symbol (non-negative integer powers in the numerator, absent from the
        denominator) by a value."""
        if sym in self.den.symbols():
            # allow monomial denominators handled by Laurent exponents only
            raise AnalysisError(f"{sym} occurs in a denominator")
        total = Rat.const(0)
        for m, c in self.num.t.items():
            d = dict(m)
            e = d.pop(sym, 0)
            term = Rat(Poly({tuple(sorted(d.items())): c}))
            if e < 0:
                term = term / (val ** (-e))
            elif e > 0:
                term = term * (val ** e)
            total = total + term
        return total / Rat(self.den)

    def subs_many(self, mapping: dict) -> "Rat":
        """Simultaneous substitution of several symbols."""
        for sym in mapping:
            if sym in self.den.symbols():
                raise AnalysisError(f"{sym} occurs in a denominator")
        total = Rat.const(0)
        for m, c in self.num.t.items():
            rest = {}
            term = Rat.const(1)
            for sname, e in m:
                if sname in mapping:
                    v = mapping[sname]
                    term = term * (v ** e) if e > 0 else term / (v ** (-e))
                else:
                    rest[sname] = e
            term = term * Rat(Poly({tuple(sorted(rest.items())): c}))
            total = total + term
        return total / Rat(self.den)

    def without(self, sym: str) -> "Rat":
        return Rat(Poly({m: c for m, c in self.num.t.items() if sym not in dict(m)}), self.den)

    def __repr__(self):
        if self.den.is_one():
            return repr(self.num)
        return f"({self.num!r})/({self.den!r})"


def _lift(x) -> Rat:
    if isinstance(x, Rat):
        return x
    if isinstance(x, (int, Fraction)):
        return Rat.const(x)
    if isinstance(x, float):
        return Rat.const(Fraction(repr(x)))
    raise AnalysisError(f"cannot lift {x!r}")


def sqrt_of(x: Rat) -> Rat:
    x = _lift(x)
    if x.is_const():
        v = x.const_value()
        # perfect squares
        import math

        n, d = v.numerator, v.denominator
        if n >= 0:
            rn, rd = math.isqrt(n), math.isqrt(d)
            if rn * rn == n and rd * rd == d:
                return Rat.const(Fraction(rn, rd))
    # exact root of a single monomial with even exponents and a perfect-square coefficient
    if x.den.is_one() and len(x.num.t) == 1:
        (m, c), = x.num.t.items()
        import math as _m

        if c > 0 and all(e % 2 == 0 for _s, e in m):
            rn, rd = _m.isqrt(c.numerator), _m.isqrt(c.denominator)
            if rn * rn == c.numerator and rd * rd == c.denominator:
                return Rat(Poly({tuple((s_, e // 2) for s_, e in m): Fraction(rn, rd)}))
    name = f"sqrt[{x!r}]"
    _SQRT_DEFS[name] = x
    return Rat.sym(name)


def sign_atom(name: str) -> Rat:
    """A symbol g with g**2 == 1 (a sign)."""
    nm = f"sgn[{name}]"
    _SQRT_DEFS[nm] = Rat.const(1)
    return Rat.sym(nm)


# ----------------------------------------------------------------------
def eval_expr(e: ast.expr, env, *, on_name=None, on_attr=None, on_call=None) -> Rat:
    """Evaluate an arithmetic expression to a Rat.  ``env`` maps local names to Rat;
    unknown names become symbols unless ``on_name`` returns something."""
    if isinstance(e, ast.Constant):
        if isinstance(e.value, bool):
            return Rat.const(int(e.value))
        if isinstance(e.value, (int, float)):
            return _lift(e.value)
        raise AnalysisError(f"non-numeric constant {e.value!r}")
    if isinstance(e, ast.Name):
        if e.id in env:
            return env[e.id]
        if on_name:
            v = on_name(e.id)
            if v is not None:
                return v
        return Rat.sym(e.id)
    if isinstance(e, ast.Attribute):
        if on_attr:
            v = on_attr(e)
            if v is not None:
                return v
        return Rat.sym(ast.unparse(e))
    if isinstance(e, ast.UnaryOp):
        v = eval_expr(e.operand, env, on_name=on_name, on_attr=on_attr, on_call=on_call)
        if isinstance(e.op, ast.USub):
            return -v
        if isinstance(e.op, ast.UAdd):
            return v
    if isinstance(e, ast.BinOp):
        a = eval_expr(e.left, env, on_name=on_name, on_attr=on_attr, on_call=on_call)
        b = eval_expr(e.right, env, on_name=on_name, on_attr=on_attr, on_call=on_call)
        if isinstance(e.op, ast.Add):
            return a + b
        if isinstance(e.op, ast.Sub):
            return a - b
        if isinstance(e.op, ast.Mult):
            return a * b
        if isinstance(e.op, ast.Div):
            return a / b
        if isinstance(e.op, ast.Pow):
            return a ** b
    if isinstance(e, ast.Call) and on_call:
        v = on_call(e)
        if v is not None:
            return v
    if isinstance(e, ast.Subscript):
        return Rat.sym(ast.unparse(e))
    raise AnalysisError(f"expression outside the polynomial grammar: {ast.unparse(e)[:80]}")
