"""CLI: ./check <ID> [--tier quick|thorough] [--replay <path>]"""

from __future__ import annotations

import argparse
import importlib
import json
import os
import sys
import traceback

from .model import Program
from .report import AnalysisError, Report

PROPS = [f"C{i:02d}" for i in range(1, 21)]


def run_property(pid: str, tier: str, replay: str | None = None) -> int:
    report = Report(pid, tier)
    program = None
    try:
        program = Program()
        program._tier = tier  # read by the token-domain engines (exploration bounds)
        mod = importlib.import_module(f"mverif.props.{pid.lower()}")
        mod.run(report, program, tier)
        if tier == "thorough" and not replay and not os.environ.get("MVERIF_REPO"):
            report.extra["selftest"] = run_selftest(pid)
            x = run_mypy_cross_resolution()
            report.extra["mypy_cross_resolution"] = x
            for prob in x.get("problems", []):
                report.errors.append(f"program model disagrees with mypy: {prob}")
        if replay:
            want = json.loads(open(replay).read())
            for r in report.rules:
                r.findings = [
                    f for f in r.findings if (f.rule, f.key) == (want["rule"], want["key"])
                ]
        return report.finish(program)
    except AnalysisError as e:
        # rules that already ran keep their verdicts; the run as a whole is not a pass
        report.errors.append(str(e))
        return report.finish(program)
    except Exception:  # noqa: BLE001
        traceback.print_exc()
        print(f"ANALYSIS-ERROR property={pid} internal error in the analyser (see traceback)")
        return 2


def run_mypy_cross_resolution() -> dict:
    """Thorough tier: compare the program model's MROs and member resolution with mypy's
    semantic analysis of the same tree (no code is executed). Disagreement -> ANALYSIS-ERROR."""
    import subprocess

    try:
        import mypy  # noqa: F401
    except ImportError:
        return {"skipped": "mypy is not installed in the repository's environment"}
    try:
        pr = subprocess.run([sys.executable, "-m", "mverif.mypyx"], capture_output=True, text=True, timeout=600, env={**os.environ, "PYTHONPATH": os.path.dirname(os.path.dirname(os.path.abspath(__file__)))})
        return json.loads(pr.stdout.strip().splitlines()[-1])
    except Exception as e:  # noqa: BLE001
        return {"skipped": f"could not run: {e}"[:200]}


def run_selftest(pid: str) -> dict:
    """Thorough tier: apply this property's mutation corpus (mutants, behaviour-preserving twins
    and confirmed seeded changes) to scratch copies and record what the checker did with them.
    The counts go into the evidence; they never change the verdict on /repo."""
    import subprocess
    from pathlib import Path

    here = Path(__file__).resolve().parent.parent
    try:
        pr = subprocess.run([str(here / "selftest" / "run.py"), pid], capture_output=True, text=True, timeout=1200)
    except Exception as e:  # noqa: BLE001
        return {"error": str(e)[:200]}
    line = [l for l in pr.stdout.splitlines() if l.startswith("SELFTEST")]
    out = {"exit": pr.returncode}
    if line:
        try:
            out["summary"] = json.loads(line[-1].split(" ", 1)[1].rsplit(" total", 1)[0])
            out["total"] = int(line[-1].rsplit("total", 1)[1])
        except Exception:  # noqa: BLE001
            out["raw"] = line[-1][:200]
    problems = [l for l in pr.stdout.splitlines() if l.startswith(("MISSED", "FALSE-ALARM", "ERROR", "STALE"))]
    if problems:
        out["problems"] = problems[:20]
    return out


def main(argv=None) -> int:
    ap = argparse.ArgumentParser(prog="check")
    ap.add_argument("property")
    ap.add_argument("--tier", default=os.environ.get("VERIF_TIER", "quick"))
    ap.add_argument("--replay", default=None)
    a = ap.parse_args(argv)
    tier = a.tier if a.tier in ("quick", "thorough") else "quick"
    if a.property == "all":
        rc = 0
        for p in PROPS:
            try:
                importlib.import_module(f"mverif.props.{p.lower()}")
            except ModuleNotFoundError:
                continue
            rc = max(rc, run_property(p, tier))
        return rc
    pid = a.property.upper()
    if pid not in PROPS:
        print(f"unknown property {pid}")
        return 2
    return run_property(pid, tier, a.replay)


if __name__ == "__main__":
    sys.exit(main())
