"""Symbolic evaluation of the product / block matrix classes (MatrixProduct family, block-diagonal,
block-row, block-column) for a fixed number n of symbolic component matrices.

Values: LinComb (a single block), Python lists of values, and Blk (a block matrix: list of rows of
LinComb).  `other` is a symbol that is partitioned on demand along the axis the member splits it.
"""

from __future__ import annotations

import ast

from .lincomb import LinComb
from .matalg import Alg
from .model import ClassInfo, FuncInfo, Program, call_name, is_self_attr, norm, strip_copy, inline_private_helpers
from .poly import Rat
from .report import AnalysisError


class Blk:
    def __init__(self, rows):
        self.rows = rows  # list of lists of LinComb

    @property
    def shape(self):
        return (len(self.rows), len(self.rows[0]) if self.rows else 0)

    def T(self, alg: Alg):
        r, c = self.shape
        return Blk([[alg.T(self.rows[i][j]) for i in range(r)] for j in range(c)])

    def mul(self, other: "Blk", alg: Alg):
        r, k = self.shape
        k2, c = other.shape
        if k != k2:
            raise AnalysisError(f"block shapes do not conform: {self.shape} x {other.shape}")
        out = []
        for i in range(r):
            row = []
            for j in range(c):
                acc = LinComb.zero()
                for t in range(k):
                    acc = acc + alg.mul(self.rows[i][t], other.rows[t][j])
                row.append(alg.simplify(acc))
            out.append(row)
        return Blk(out)

    def equal(self, other: "Blk", alg: Alg) -> bool:
        if self.shape != other.shape:
            return False
        return all(alg.equal(a, b) for ra, rb in zip(self.rows, other.rows) for a, b in zip(ra, rb))

    def __repr__(self):
        return "[" + "; ".join(", ".join(repr(x) for x in r) for r in self.rows) + "]"


def as_blk(v) -> Blk:
    if isinstance(v, Blk):
        return v
    if isinstance(v, LinComb):
        return Blk([[v]])
    raise AnalysisError(f"not a matrix value: {type(v).__name__}")


class Obj:
    def __init__(self, cls: str, comps):
        self.cls, self.comps = cls, comps


PRODUCT = ("MatrixProduct", "SquareMatrixProduct", "InvertibleMatrixProduct")
BDIAG = ("SquareBlockDiagonalMatrix", "SymmetricBlockDiagonalMatrix", "PositiveDefiniteBlockDiagonalMatrix")


def den(cls: str, comps, alg: Alg) -> Blk:
    comps = [c if isinstance(c, LinComb) else den_any(c, alg) for c in comps]
    n = len(comps)
    if cls in PRODUCT:
        acc = alg.ident()
        for c in comps:
            acc = alg.mul(acc, c if isinstance(c, LinComb) else _single(c))
        return Blk([[acc]])
    z = LinComb.zero()
    comps = [c if isinstance(c, LinComb) else _single(c) for c in comps]
    if cls in BDIAG:
        return Blk([[comps[i] if i == j else z for j in range(n)] for i in range(n)])
    if cls == "BlockRowMatrix":
        return Blk([comps])
    if cls == "BlockColumnMatrix":
        return Blk([[c] for c in comps])
    raise AnalysisError(f"no block denotation for {cls}")


def _single(b) -> LinComb:
    if isinstance(b, Blk) and b.shape == (1, 1):
        return b.rows[0][0]
    if isinstance(b, LinComb):
        return b
    raise AnalysisError("component is not a single block")


def den_any(v, alg: Alg):
    if isinstance(v, Obj):
        if v.cls in ("ScaledIdentityMatrix", "PositiveScaledIdentityMatrix"):
            return alg.ident().scale(v.comps[0])
        return den(v.cls, v.comps, alg)
    return v


class BlockEval:
    def __init__(self, program: Program, k: ClassInfo, alg: Alg, n: int, member: str):
        self.p, self.k, self.alg, self.n, self.member = program, k, alg, n, member
        self.comps = [alg.atom(f"M{i+1}") for i in range(n)]
        self.split_axis = None
        self.scalar = Rat.sym("c")
        self.extra_returns = []

    def self_den(self) -> Blk:
        return den(self.k.name, self.comps, self.alg)

    def other_repr(self) -> Blk:
        A = self.alg
        if self.split_axis == 0:
            return Blk([[A.atom(f"O_{i+1}")] for i in range(self.n)])
        if self.split_axis in (-1, 1):
            return Blk([[A.atom(f"O^{i+1}") for i in range(self.n)]])
        return Blk([[A.atom("O")]])

    # ------------------------------------------------------------------
    def run(self, f: FuncInfo):
        env = {}
        if self.member in ("_left_matrix_multiply", "_right_matrix_multiply"):
            env[f.params[1]] = ("other",)
        if self.member == "_scalar_multiply":
            env[f.params[1]] = self.scalar
        return self._block(f, f.body_without_docstring(), env)

    def _block(self, f, body, env):
        for st in body:
            if isinstance(st, ast.Return):
                return self.ev(f, st.value, env)
            if isinstance(st, ast.Assign) and len(st.targets) == 1 and isinstance(st.targets[0], ast.Name):
                env[st.targets[0].id] = self.ev(f, st.value, env)
                continue
            if isinstance(st, ast.For) and isinstance(st.target, (ast.Name, ast.Tuple)):
                for item in self._list(f, st.iter, env):
                    if isinstance(st.target, ast.Name):
                        env[st.target.id] = item
                    else:
                        if not isinstance(item, (tuple, list)) or len(item) != len(st.target.elts) or not all(isinstance(x, ast.Name) for x in st.target.elts):
                            raise AnalysisError(f"{f.qualname}: loop target outside the block grammar: {norm(st.target)[:40]}")
                        for x, xv in zip(st.target.elts, item):
                            env[x.id] = xv
                    r = self._block(f, st.body, env)
                    if r is not None:
                        return r
                continue
            if isinstance(st, ast.Expr) and isinstance(st.value, ast.Call) and isinstance(st.value.func, ast.Attribute) and st.value.func.attr == "append" and isinstance(st.value.func.value, ast.Name) and isinstance(env.get(st.value.func.value.id), list) and len(st.value.args) == 1:
                env[st.value.func.value.id] = env[st.value.func.value.id] + [self.ev(f, st.value.args[0], env)]
                continue
            if isinstance(st, ast.If):
                # shape validation guards only raise
                if all(isinstance(s, (ast.Raise, ast.Assign)) for s in st.body) and any(isinstance(s, ast.Raise) for s in st.body):
                    continue
                if norm(st.test) in ("scalar > 0", "self.is_differentiable"):
                    r = self._block(f, st.body, dict(env))
                    if r is not None:
                        self.extra_returns.append(r)
                    if st.orelse:
                        r2 = self._block(f, st.orelse, dict(env))
                        if r2 is not None:
                            self.extra_returns.append(r2)
                    continue
                raise AnalysisError(f"{f.qualname}: branch outside the block grammar")
            if isinstance(st, ast.Expr) and isinstance(st.value, ast.Constant):
                continue
            raise AnalysisError(f"{f.qualname}: statement outside the block grammar: {norm(st)[:60]}")
        return None

    def _list(self, f, e, env):
        v = self.ev(f, e, env)
        if not isinstance(v, list):
            raise AnalysisError(f"{f.qualname}: not a sequence: {norm(e)[:50]}")
        return v

    def _other_parts(self, axis):
        self.split_axis = axis
        A = self.alg
        if axis == 0:
            return [A.atom(f"O_{i+1}") for i in range(self.n)]
        return [A.atom(f"O^{i+1}") for i in range(self.n)]

    def ev(self, f, e, env):
        e = strip_copy(e)
        A = self.alg
        if isinstance(e, ast.Name) and e.id == "self":
            return Obj(self.k.name, list(self.comps))
        if isinstance(e, ast.Call) and call_name(e).startswith("super()."):
            g = self.k.resolve_super(f.cls, call_name(e).split(".")[1])
            if g is None:
                raise AnalysisError(f"{f.qualname}: {call_name(e)} not resolved")
            import dataclasses

            g = dataclasses.replace(g, node=inline_private_helpers(g, methods=True))
            env2 = {p: self.ev(f, a, env) for p, a in zip(g.params[1:], e.args)}
            return self._block(g, g.body_without_docstring(), env2)
        if isinstance(e, ast.Name):
            if e.id in env:
                v = env[e.id]
                if v == ("other",):
                    return A.atom("O")
                return v
            raise AnalysisError(f"{f.qualname}: unknown name {e.id}")
        if isinstance(e, ast.Constant) and isinstance(e.value, (int, float)):
            return Rat.const(e.value) if isinstance(e.value, int) else Rat.const(__import__("fractions").Fraction(repr(e.value)))
        if isinstance(e, ast.Attribute):
            if is_self_attr(e) and e.attr in ("matrices", "_matrices", "blocks", "_blocks"):
                return list(self.comps)
            if is_self_attr(e) and e.attr == "shape":
                return ("shape",)
            base = self.ev(f, e.value, env)
            if e.attr in ("T", "transpose"):
                return self._map(base, lambda x: A.T(x), blk=lambda b: b.T(A))
            if e.attr == "inv":
                return self._map(base, lambda x: A.inv(x))
            if e.attr == "array":
                return den_any(base, A)
            if e.attr == "sqrt":
                if isinstance(base, LinComb) and len(base.t) == 1:
                    (w, c), = base.t.items()
                    if len(w) == 1:
                        nm = f"sqrt<{w[0][1]}>"
                        A.sqrt_gen[nm] = w[0][1]
                        return A.atom(nm)
                raise AnalysisError(f"{f.qualname}: sqrt of compound")
            raise AnalysisError(f"{f.qualname}: attribute .{e.attr} outside the block grammar")
        if isinstance(e, ast.Subscript):
            base = self.ev(f, e.value, env)
            if base == ("shape",):
                return ("dim",)
            if isinstance(base, list):
                s = e.slice
                if isinstance(s, ast.Slice):
                    lo = s.lower.value if s.lower is not None else None
                    hi = s.upper.value if s.upper is not None else None
                    return base[lo:hi]
                if isinstance(s, ast.Constant):
                    return base[s.value]
            raise AnalysisError(f"{f.qualname}: subscript outside the block grammar")
        if isinstance(e, ast.Starred):
            return ("star", self.ev(f, e.value, env))
        if isinstance(e, (ast.Tuple, ast.List)):
            out = []
            for x in e.elts:
                v = self.ev(f, x, env)
                if isinstance(v, tuple) and v and v[0] == "star":
                    out.extend(v[1])
                else:
                    out.append(v)
            return out
        if isinstance(e, ast.BinOp):
            a, b = self.ev(f, e.left, env), self.ev(f, e.right, env)
            if isinstance(e.op, ast.MatMult):
                a, b = den_any(a, A), den_any(b, A)
                if isinstance(a, LinComb) and isinstance(b, LinComb):
                    return A.mul(a, b)
                return as_blk(a).mul(as_blk(b), A)
            if isinstance(e.op, ast.Mult):
                if isinstance(a, Rat):
                    return self._map(b, lambda x: x.scale(a))
                if isinstance(b, Rat):
                    return self._map(a, lambda x: x.scale(b))
            raise AnalysisError(f"{f.qualname}: operation outside the block grammar: {norm(e)[:50]}")
        if isinstance(e, (ast.GeneratorExp, ast.ListComp)):
            if len(e.generators) != 1 or e.generators[0].ifs:
                raise AnalysisError(f"{f.qualname}: comprehension outside the block grammar")
            g = e.generators[0]
            items = self._list(f, g.iter, env)
            out = []
            for it in items:
                env2 = dict(env)
                if isinstance(g.target, ast.Name):
                    env2[g.target.id] = it
                else:
                    for t, v in zip(g.target.elts, it):
                        env2[norm(t)] = v
                out.append(self.ev(f, e.elt, env2))
            return out
        if isinstance(e, ast.Call):
            cn = call_name(e)
            if cn in ("reversed",):
                return list(reversed(self._list(f, e.args[0], env)))
            if cn in ("tuple", "list"):
                return list(self._list(f, e.args[0], env))
            if cn == "zip":
                ls = [self._list(f, a, env) for a in e.args]
                if len({len(x) for x in ls}) != 1:
                    raise AnalysisError(f"{f.qualname}: zip over sequences of different length")
                return [tuple(x) for x in zip(*ls)]
            if cn == "sum":
                acc = LinComb.zero()
                for x in self._list(f, e.args[0], env):
                    acc = acc + _single(den_any(x, A))
                return A.simplify(acc)
            if cn in ("self._split", "np.split"):
                axis = next((k.value for k in e.keywords if k.arg == "axis"), None)
                ax = 0 if axis is None else (axis.value if isinstance(axis, ast.Constant) else (-axis.operand.value if isinstance(axis, ast.UnaryOp) else None))
                if ax is None:
                    raise AnalysisError(f"{f.qualname}: split axis not literal")
                tgt = self.ev(f, e.args[0], env)
                if not (isinstance(tgt, LinComb) and A.equal(tgt, A.atom("O"))):
                    raise AnalysisError(f"{f.qualname}: only the operand can be split")
                return self._other_parts(ax)
            if cn in ("np.concatenate",):
                items = self._list(f, e.args[0], env)
                axis = next((k.value for k in e.keywords if k.arg == "axis"), None)
                ax = 0 if axis is None else (axis.value if isinstance(axis, ast.Constant) else -axis.operand.value)
                items = [_single(den_any(x, A)) if not isinstance(x, Blk) else x for x in items]
                if ax == 0:
                    return Blk([[x] for x in items])
                return Blk([list(items)])
            if cn == "sla.block_diag":
                arg = e.args[0]
                items = self._list(f, arg.value if isinstance(arg, ast.Starred) else arg, env)
                items = [_single(den_any(x, A)) for x in items]
                z = LinComb.zero()
                return Blk([[items[i] if i == j else z for j in range(len(items))] for i in range(len(items))])
            if cn in ("type(self)",) or (isinstance(e.func, ast.Name) and e.func.id in self.p.classes):
                cls = self.k.name if cn == "type(self)" or norm(e.func) == "type(self)" else e.func.id
                if cls in ("ScaledIdentityMatrix", "PositiveScaledIdentityMatrix"):
                    return Obj(cls, [self.ev(f, e.args[0], env)])
                comps = self._list(f, e.args[0], env)
                return Obj(cls, comps)
            if norm(e.func) == "type(self)":
                return Obj(self.k.name, self._list(f, e.args[0], env))
        raise AnalysisError(f"{f.qualname}: expression outside the block grammar: {norm(e)[:60]}")

    def _map(self, v, fn, blk=None):
        if isinstance(v, LinComb):
            return fn(v)
        if isinstance(v, list):
            return [self._map(x, fn, blk) for x in v]
        if isinstance(v, Blk):
            if blk:
                return blk(v)
            return Blk([[fn(x) for x in r] for r in v.rows])
        if isinstance(v, Obj):
            return self._map(den_any(v, self.alg), fn, blk)
        raise AnalysisError("cannot map over value")
