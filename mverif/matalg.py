"""E5 (matrix part) - exact operator algebra for the structured matrix classes.

A matrix expression is a LinComb: sum of (exact rational scalar) x (word of atoms); an atom is
('m', name, transposed, inverted).  Declared-symmetric atoms ignore transposition, declared-
orthogonal atoms satisfy Q^-1 = Q^T, adjacent X X^-1 cancel, square-root atoms satisfy
S S^T = X, and lemmas (word -> LinComb) are applied as oriented rewrite rules.  Member functions
of a matrix class are evaluated symbolically in this algebra (no mici code runs) and compared
with the class's denotation from the trusted table in props/c10.py.
"""

from __future__ import annotations

import ast

from .lincomb import LinComb
from .model import ClassInfo, FuncInfo, Program, call_name, is_self_attr, norm, strip_copy, inline_private_helpers
from .poly import Rat, eval_expr, sign_atom, sqrt_of
from .report import AnalysisError


class Alg:
    def __init__(self):
        self.sym: set[str] = set()
        self.orth: set[str] = set()
        self.sqrt_sym: dict[str, str] = {}  # symmetric root r of X: r r = X
        self.sqrt_gen: dict[str, str] = {}  # general root S of X: S S^T = X
        self.lemmas: list[tuple[tuple, LinComb]] = []

    def atom(self, name, t=False, i=False) -> LinComb:
        return LinComb({(self._norm_elem(("m", name, t, i)),): Rat.const(1)})

    def _norm_elem(self, e):
        _, n, t, i = e
        if n in self.sym:
            t = False
        if n in self.orth:
            t, i = (t != i), False
        return ("m", n, t, i)

    def ident(self) -> LinComb:
        return LinComb.scalar(Rat.const(1))

    def T(self, lc: LinComb) -> LinComb:
        out = {}
        for w, c in lc.t.items():
            nw = tuple(self._norm_elem(("m", e[1], not e[2], e[3])) if e[0] == "m" else e for e in reversed(w))
            out[nw] = out[nw] + c if nw in out else c
        return self.simplify(LinComb(out))

    def inv(self, lc: LinComb) -> LinComb:
        lc = self.simplify(lc)
        if len(lc.t) != 1:
            raise AnalysisError(f"inverse of a sum is outside the algebra: {lc!r}"[:120])
        (w, c), = lc.t.items()
        nw = tuple(self._norm_elem(("m", e[1], e[2], not e[3])) for e in reversed(w))
        return LinComb({nw: Rat.const(1) / c})

    def mul(self, a: LinComb, b: LinComb) -> LinComb:
        return self.simplify(a.matmul(b))

    def simplify(self, lc: LinComb) -> LinComb:
        for _ in range(40):
            changed = False
            out = LinComb.zero()
            for w, c in lc.t.items():
                w2, ch = self._simp_word(list(w))
                if ch:
                    changed = True
                rep = self._apply_lemmas(tuple(w2))
                if rep is not None:
                    changed = True
                    out = out + rep.scale(c)
                else:
                    out = out + LinComb({tuple(w2): c})
            lc = out
            if not changed:
                return lc
        raise AnalysisError("simplification did not terminate")

    def _simp_word(self, w):
        changed = False
        i = 0
        while i < len(w) - 1:
            a, b = w[i], w[i + 1]
            if a[0] == "m" and b[0] == "m" and a[1] == b[1]:
                n = a[1]
                if n in self.orth and a[2] != b[2]:
                    del w[i : i + 2]
                    changed = True
                    i = max(i - 1, 0)
                    continue
                if n not in self.orth and a[2] == b[2] and a[3] != b[3]:
                    del w[i : i + 2]
                    changed = True
                    i = max(i - 1, 0)
                    continue
                if n in self.sqrt_sym and not a[3] and not b[3]:
                    w[i : i + 2] = [self._norm_elem(("m", self.sqrt_sym[n], False, False))]
                    changed = True
                    continue
                if n in self.sqrt_sym and a[3] and b[3]:
                    w[i : i + 2] = [self._norm_elem(("m", self.sqrt_sym[n], False, True))]
                    changed = True
                    continue
                if n in self.sqrt_gen and not a[3] and not b[3] and not a[2] and b[2]:
                    w[i : i + 2] = [self._norm_elem(("m", self.sqrt_gen[n], False, False))]
                    changed = True
                    continue
            i += 1
        return w, changed

    def _apply_lemmas(self, w):
        for pat, rep in self.lemmas:
            n = len(pat)
            for i in range(len(w) - n + 1):
                if w[i : i + n] == pat:
                    pre, post = LinComb({w[:i]: Rat.const(1)}), LinComb({w[i + n :]: Rat.const(1)})
                    return pre.matmul(rep).matmul(post)
        return None

    def equal(self, a: LinComb, b: LinComb) -> bool:
        return self.simplify(a - b).is_zero()


class NeedSplit(Exception):
    """The value depends on a run-time flag the algebra cannot see (e.g. the `lower` flag of a
    triangular factor handed to LAPACK): the caller re-evaluates under each value of the flag."""

    def __init__(self, key):
        super().__init__(key)
        self.key = key


def _names(e) -> set:
    return {n.id for n in ast.walk(e) if isinstance(n, ast.Name)}


# ----------------------------------------------------------------------
class Val:
    """Evaluated value: kind in {'mat','scalar','obj','self','none','bool','tuple','other'}."""

    def __init__(self, kind, v=None, cls=None, args=None, diagvec=False, colvec=False):
        self.kind, self.v, self.cls, self.args = kind, v, cls, args or {}
        self.diagvec = diagvec  # a 1-D array standing for the diagonal matrix diag(v)
        self.colvec = colvec  # d[:, None]

    def __repr__(self):
        return f"Val({self.kind}, {self.v!r}, {self.cls})"


class MatEval:
    def __init__(self, program: Program, k: ClassInfo, alg: Alg, attr_vals: dict, den, member: str, assume: dict | None = None):
        """attr_vals: 'self.<attr>' -> Val; den(cls_name, argdict, alg) -> LinComb."""
        self.p, self.k, self.alg, self.attrs, self.den = program, k, alg, attr_vals, den
        self.member = member
        self.assume = assume or {}
        self.depth = 0

    # ------------------------------------------------------------------
    def returns(self, f: FuncInfo, env: dict):
        """List of (assumption dict, Val) for every return of f."""
        out = []
        self._block(f, f.body_without_docstring(), dict(env), dict(self.assume), out)
        return out

    def _block(self, f, body, env, assume, out):
        for i, st in enumerate(body):
            if isinstance(st, ast.Return):
                saved = self.assume
                self.assume = assume
                try:
                    out.append((dict(assume), self.ev(f, st.value, env)))
                finally:
                    self.assume = saved
                return True
            if isinstance(st, ast.Assign) and len(st.targets) == 1 and isinstance(st.targets[0], ast.Name):
                env[st.targets[0].id] = ("val", self.ev(f, st.value, env)) if st.targets[0].id in _names(st.value) else ("lazy", st.value)
                continue
            if isinstance(st, ast.AugAssign) and isinstance(st.target, ast.Name) and st.target.id in env:
                cur = ast.Name(id=st.target.id, ctx=ast.Load())
                env[st.target.id] = ("val", self.ev(f, ast.BinOp(left=cur, op=st.op, right=st.value), env))
                continue
            if isinstance(st, ast.Assign) and isinstance(st.targets[0], ast.Tuple) and isinstance(st.value, ast.Tuple):
                for tt, vv in zip(st.targets[0].elts, st.value.elts):
                    env[norm(tt)] = ("lazy", vv)
                continue
            if isinstance(st, ast.Assign) and isinstance(st.targets[0], ast.Tuple):
                # unpacking of a cached tuple (LU factors etc.): opaque components
                for tt in st.targets[0].elts:
                    env[norm(tt)] = Val("other", norm(tt))
                continue
            if isinstance(st, ast.If):
                test = st.test
                if isinstance(test, ast.Name) and isinstance(env.get(test.id), tuple) and env[test.id][0] == "lazy":
                    test = env[test.id][1]  # a named condition
                arms = self._arms(test)
                done_all = True
                for asm, arm in ((arms[0], st.body), (arms[1], st.orelse)):
                    if asm is False:
                        continue
                    a2 = dict(assume)
                    a2.update(asm or {})
                    if not self._block(f, list(arm) + body[i + 1 :], dict(env), a2, out):
                        done_all = False
                return done_all
            if isinstance(st, ast.Raise):
                return True
            if isinstance(st, ast.Expr) and isinstance(st.value, ast.Constant):
                continue
            raise AnalysisError(f"{f.qualname}: statement outside the matrix grammar: {norm(st)[:60]}")
        return False

    def _arms(self, test):
        """(assumptions for true arm, assumptions for false arm); False = arm infeasible."""
        t = norm(test)
        if t == "scalar > 0":
            return {"g": 1}, {"g": -1}
        if t == "(scalar > 0) == (self._sign == 1)":
            return {"g=s": True}, {"g=-s": True}
        if t.startswith("other.ndim") or t.startswith("self.shape[0] is None") or "is None" in t:
            return None, None
        return None, None

    # ------------------------------------------------------------------
    def scalar(self, f, e, env) -> Rat:
        v = self.ev(f, e, env)
        if v.kind != "scalar":
            raise AnalysisError(f"{f.qualname}: scalar expected in {norm(e)[:50]}")
        return v.v

    def ev(self, f, e, env) -> Val:
        e = strip_copy(e)
        A = self.alg
        if isinstance(e, ast.Constant):
            if e.value is None:
                return Val("none")
            if isinstance(e.value, bool):
                return Val("bool", e.value)
            if isinstance(e.value, (int, float)):
                return Val("scalar", eval_expr(e, {}))
            return Val("other", norm(e))
        if isinstance(e, ast.Name):
            if e.id == "self":
                return Val("self")
            if e.id in env:
                v = env[e.id]
                if isinstance(v, tuple) and v[0] == "lazy":
                    return self.ev(f, v[1], env)
                if isinstance(v, tuple) and v[0] == "val":
                    return v[1]
                return v
            raise AnalysisError(f"{f.qualname}: unknown name {e.id}")
        if isinstance(e, ast.UnaryOp):
            if isinstance(e.op, ast.USub):
                v = self.ev(f, e.operand, env)
                if v.kind == "scalar":
                    return Val("scalar", -v.v)
                if v.kind == "mat":
                    return Val("mat", -v.v, diagvec=v.diagvec)
            if isinstance(e.op, ast.Not):
                v = self.ev(f, e.operand, env)
                if v.kind == "bool" and isinstance(v.v, bool):
                    return Val("bool", not v.v)
                return Val("bool", ("not", v.v))
        if isinstance(e, ast.Attribute):
            return self._attr(f, e, env)
        if isinstance(e, ast.Subscript):
            base = self.ev(f, e.value, env)
            if base.kind == "other":
                return Val("other", norm(e)[:30])
            s = norm(e.slice)
            if base.kind == "mat" and base.diagvec and s in ("(slice(None, None, None), None)", ":, None", "(:, None)") or (base.kind == "mat" and base.diagvec and norm(e).endswith("[:, None]")):
                return Val("mat", base.v, diagvec=True, colvec=True)
            raise AnalysisError(f"{f.qualname}: subscript outside the matrix grammar: {norm(e)[:50]}")
        if isinstance(e, ast.IfExp):
            t = norm(e.test)
            if "is None" in t or "is not None" in t:
                # `None if x is None else y` style cache forwarding: evaluate the non-None arm
                arm = e.body if "is not None" in t else e.orelse
                return self.ev(f, arm, env)
            a, b = self.ev(f, e.body, env), self.ev(f, e.orelse, env)
            if a.kind == b.kind == "mat" and self.alg.equal(a.v, b.v):
                return a
            if a.kind == b.kind == "scalar" and a.v.equals(b.v):
                return a
            raise AnalysisError(f"{f.qualname}: conditional expression outside grammar: {t[:40]}")
        if isinstance(e, ast.BinOp):
            return self._binop(f, e, env)
        if isinstance(e, ast.Call):
            return self._call(f, e, env)
        if isinstance(e, ast.Compare):
            return Val("bool", ("cmp", norm(e)))
        if isinstance(e, ast.Tuple):
            return Val("tuple", [self.ev(f, x, env) for x in e.elts])
        raise AnalysisError(f"{f.qualname}: expression outside the matrix grammar: {norm(e)[:60]}")

    def _mat(self, f, v: Val, what="") -> LinComb:
        if v.kind == "mat":
            return v.v
        if v.kind == "obj":
            return self.den(v.cls, v.args, self.alg)
        if v.kind == "self":
            return self.attrs["<den>"]
        raise AnalysisError(f"{f.qualname}: matrix expected {what} (got {v.kind})")

    def _attr(self, f, e, env) -> Val:
        A = self.alg
        txt = norm(e)
        if txt in self.attrs:
            return self.attrs[txt]
        base_e = e.value
        if is_self_attr(e):
            if e.attr in ("T", "transpose"):
                return Val("mat", A.T(self.attrs["<den>"]))
            if e.attr == "array":
                g = self.k.resolve("array")
                return Val("mat", self.attrs["<den>"])
            if e.attr == "inv" and ("<inv>" in self.attrs or self.attrs.get("<use-inv>")):
                # the inverse of the matrix itself (its construction is C10's obligation)
                return Val("mat", self.attrs["<inv>"]) if "<inv>" in self.attrs else Val("mat", A.inv(self.attrs["<den>"]))
            if e.attr == "shape":
                return Val("other", "shape")
            g = self.k.resolve(e.attr)
            if g is not None and g.is_property:
                rets = [n for n in ast.walk(g.node) if isinstance(n, ast.Return)]
                if len(rets) == 1 and rets[0].value is not None and len(g.body_without_docstring()) == 1:
                    return self.ev(g, rets[0].value, {})
                # lazy slot accessor: `if self._x is None: ...; return self._x` -> the slot's value
                last = g.body_without_docstring()[-1]
                if isinstance(last, ast.Return) and is_self_attr(last.value) and norm(last.value) in self.attrs:
                    v = self.attrs[norm(last.value)]
                    return v if v.kind not in ("none",) else Val("other", norm(last.value))
            raise AnalysisError(f"{f.qualname}: attribute {txt} has no value in the matrix table")
        base = self.ev(f, base_e, env)
        if e.attr in ("T", "transpose"):
            if base.kind == "mat" and base.diagvec:
                return base
            return Val("mat", A.T(self._mat(f, base)))
        if e.attr == "inv":
            return Val("mat", A.inv(self._mat(f, base)))
        if e.attr == "array":
            return Val("mat", self._mat(f, base))
        if e.attr == "sqrt":
            m = self._mat(f, base)
            if len(m.t) == 1:
                (w, c), = m.t.items()
                if len(w) == 1 and c.equals(Rat.const(1)) and not w[0][3]:
                    nm = f"sqrt<{w[0][1]}>"
                    A.sqrt_gen[nm] = w[0][1]
                    return Val("mat", A.atom(nm))
            raise AnalysisError(f"{f.qualname}: .sqrt of a compound matrix")
        if e.attr == "shape":
            return Val("other", "shape")
        if e.attr in ("lower",):
            return Val("bool", ("attr", txt))
        raise AnalysisError(f"{f.qualname}: attribute .{e.attr} outside the matrix grammar")

    def _binop(self, f, e, env) -> Val:
        A = self.alg
        a, b = self.ev(f, e.left, env), self.ev(f, e.right, env)
        op = e.op
        if a.kind == "other" or b.kind == "other":
            return Val("other", norm(e)[:30])
        if a.kind == "scalar" and b.kind == "scalar":
            x, y = a.v, b.v
            if isinstance(op, ast.Add):
                return Val("scalar", x + y)
            if isinstance(op, ast.Sub):
                return Val("scalar", x - y)
            if isinstance(op, ast.Mult):
                return Val("scalar", x * y)
            if isinstance(op, ast.Div):
                return Val("scalar", x / y)
            if isinstance(op, ast.Pow):
                return Val("scalar", x ** y)
        if isinstance(op, ast.MatMult):
            return Val("mat", A.mul(self._mat(f, a), self._mat(f, b)))
        if isinstance(op, ast.Mult):
            if a.kind == "scalar":
                return Val("mat", self._mat(f, b).scale(a.v), diagvec=b.diagvec)
            if b.kind == "scalar":
                return Val("mat", self._mat(f, a).scale(b.v), diagvec=a.diagvec)
            # element-wise product with a diagonal vector
            if a.kind == "mat" and a.diagvec and not (b.kind == "mat" and b.diagvec):
                if a.colvec or self.member != "_right_matrix_multiply":
                    return Val("mat", A.mul(a.v, self._mat(f, b)))
                return Val("mat", A.mul(self._mat(f, b), a.v))
            if b.kind == "mat" and b.diagvec and not (a.kind == "mat" and a.diagvec):
                if self.member == "_right_matrix_multiply":
                    return Val("mat", A.mul(self._mat(f, a), b.v))
                return Val("mat", A.mul(b.v, self._mat(f, a)))
            if a.kind == "mat" and b.kind == "mat" and a.diagvec and b.diagvec:
                return Val("mat", A.mul(a.v, b.v), diagvec=True)
        if isinstance(op, ast.Div):
            if b.kind == "scalar":
                return Val("mat", self._mat(f, a).scale(Rat.const(1) / b.v), diagvec=a.diagvec)
            if a.kind == "scalar" and b.kind == "mat" and b.diagvec:
                return Val("mat", A.inv(b.v).scale(a.v), diagvec=True)
            if b.kind == "mat" and b.diagvec and a.kind in ("mat", "obj", "self"):
                x = self._mat(f, a)
                if self.member == "_right_matrix_multiply":
                    return Val("mat", A.mul(x, A.inv(b.v)))
                return Val("mat", A.mul(A.inv(b.v), x))
        if isinstance(op, (ast.Add, ast.Sub)) and a.kind in ("mat", "obj", "self") and b.kind in ("mat", "obj", "self"):
            x, y = self._mat(f, a), self._mat(f, b)
            return Val("mat", x + y if isinstance(op, ast.Add) else x - y)
        if isinstance(op, ast.Pow) and a.kind == "mat" and a.diagvec and b.kind == "scalar":
            if b.v.equals(Rat.const(1) / 2):
                (w, c), = a.v.t.items() if len(a.v.t) == 1 else ((None, None),)
                if w is not None and len(w) == 1 and c.equals(Rat.const(1)) and not w[0][3]:
                    nm = f"root<{w[0][1]}>"
                    A.sqrt_sym[nm] = w[0][1]
                    A.sym.add(nm)
                    return Val("mat", A.atom(nm), diagvec=True)
            if b.v.equals(Rat.const(-1)):
                return Val("mat", A.inv(a.v), diagvec=True)
        raise AnalysisError(f"{f.qualname}: operation outside the matrix grammar: {norm(e)[:60]}")

    def _call(self, f, e, env) -> Val:
        A = self.alg
        cn = call_name(e)
        if cn in ("abs",) and len(e.args) == 1 and norm(e.args[0]) == "scalar":
            return Val("scalar", self._scalar_parts()[0])
        if cn in ("np.sign",) and norm(e.args[0]) == "scalar":
            return Val("scalar", self._scalar_parts()[1])
        if cn in ("_make_array_triangular", "np.asarray_chkfinite", "np.asarray", "np.tril", "np.triu") and e.args:
            # identity on the generic (already triangular / finite) instance array
            return self.ev(f, e.args[0], env)
        if cn in ("np.identity", "np.eye"):
            return Val("mat", A.ident())
        if cn in ("np.sort", "np.flip", "np.roll", "sorted", "np.argsort") and e.args:
            # re-ordering the entries of a vector: a different (opaque) diagonal unless proven otherwise
            v = self.ev(f, e.args[0], env)
            if v.kind == "mat":
                nm = f"{cn.split('.')[-1]}<{self.alg.simplify(v.v)!r}>"
                if v.diagvec:
                    self.alg.sym.add(nm)
                return Val("mat", A.atom(nm), diagvec=v.diagvec)
        if cn in ("np.outer",) and len(e.args) == 2:
            # outer product of two (column) vectors: a b^T
            a = self._mat(f, self.ev(f, e.args[0], env))
            b = self._mat(f, self.ev(f, e.args[1], env))
            return Val("mat", A.mul(a, A.T(b)))
        if cn in ("np.diag",) and len(e.args) == 1:
            v = self.ev(f, e.args[0], env)
            if v.kind == "mat" and v.diagvec:
                return Val("mat", v.v)
        if cn == "sla.solve_triangular":
            a = self._mat(f, self.ev(f, e.args[0], env))
            b = self._mat(f, self.ev(f, e.args[1], env))
            trans = next((k.value for k in e.keywords if k.arg == "trans"), None)
            tr = trans is not None and not (isinstance(trans, ast.Constant) and trans.value in (0, "N"))
            ia = A.inv(a)
            return Val("mat", A.mul(A.T(ia) if tr else ia, b))
        if cn in ("sla.cho_solve", "scipy.linalg.cho_solve", "cho_solve"):
            # SciPy contract: cho_solve((c, lower), b) solves A x = b with A = c c^T if lower else c^T c
            fac = e.args[0]
            if not (isinstance(fac, ast.Tuple) and len(fac.elts) == 2):
                raise AnalysisError(f"{f.qualname}: cho_solve with a non-literal (c, lower) pair")
            c = self._mat(f, self.ev(f, fac.elts[0], env))
            b = self._mat(f, self.ev(f, e.args[1], env))
            flag = fac.elts[1]
            if isinstance(flag, ast.Constant) and isinstance(flag.value, bool):
                lower = flag.value
            elif "cho_lower" in self.assume:
                lower = self.assume["cho_lower"]
            else:
                raise NeedSplit("cho_lower")
            a = A.mul(c, A.T(c)) if lower else A.mul(A.T(c), c)
            return Val("mat", A.mul(A.inv(a), b))
        if cn == "sla.lu_solve":
            # contract: the factors belong to Lm with  <array> = Lm  (flag False)  or  Lm^T  (flag True)
            lm = self.attrs.get("<lu_matrix>")
            if lm is None:
                raise AnalysisError(f"{f.qualname}: lu_solve without an LU contract")
            b = self._mat(f, self.ev(f, e.args[1], env))
            t = e.args[2] if len(e.args) > 2 else next((k.value for k in e.keywords if k.arg == "trans"), None)
            tv = self._truth(f, t, env) if t is not None else False
            il = A.inv(lm)
            return Val("mat", A.mul(A.T(il) if tv else il, b))
        if cn == "super()._scalar_multiply" or cn == "super()._construct_inv" or cn == "super()._construct_transpose":
            g = self.k.resolve_super(f.cls, cn.split(".")[1])
            if g is None:
                raise AnalysisError(f"{f.qualname}: {cn} not resolved")
            import dataclasses

            g = dataclasses.replace(g, node=inline_private_helpers(g, methods=True))
            sub = self.returns(g, {p: self.ev(f, a, env) for p, a in zip(g.params[1:], e.args)})
            if len(sub) != 1:
                # several returns: must agree under the current assumptions
                pass
            return sub[-1][1] if len(sub) == 1 else self._pick(sub)
        # private helper *method* of the class (self._name(args)): inline its return value
        if isinstance(e.func, ast.Attribute) and is_self_attr(e.func) and e.func.attr.startswith("_") and not e.func.attr.startswith("__"):
            g = self.k.resolve(e.func.attr)
            if g is not None and not g.is_property and not g.is_abstract and g.name not in ("_left_matrix_multiply", "_right_matrix_multiply", "_construct_array", "_construct_transpose", "_construct_inv", "_construct_sqrt", "_scalar_multiply"):
                binds = {}
                for prm, a in zip(g.params[1:], e.args):
                    binds[prm] = env[a.id] if isinstance(a, ast.Name) and a.id in env else self.ev(f, a, env)
                for kw in e.keywords:
                    binds[kw.arg] = self.ev(f, kw.value, env)
                sub = self.returns(g, binds)
                if not sub:
                    raise AnalysisError(f"{f.qualname}: helper {g.qualname} has no return")
                return sub[-1][1] if len(sub) == 1 else self._pick(sub)
        # private module-level helper function (e.g. an extracted expression): inline
        if isinstance(e.func, ast.Name) and e.func.id in f.module.functions and e.func.id not in self.p.classes and e.func.id not in env:
            g = f.module.functions[e.func.id]
            binds = {}
            for prm, a in zip(g.params, e.args):
                binds[prm] = env[a.id] if isinstance(a, ast.Name) and a.id in env else self.ev(f, a, env)
            for kw in e.keywords:
                binds[kw.arg] = self.ev(f, kw.value, env)
            sub = self.returns(g, binds)
            if not sub:
                raise AnalysisError(f"{f.qualname}: helper {g.qualname} has no return")
            return sub[-1][1] if len(sub) == 1 else self._pick(sub)
        # constructor through a local name bound to a class or to a conditional choice of classes:
        #   cls = A if cond else B; return cls(args)   ==   A(args) if cond else B(args)
        if isinstance(e.func, ast.Name) and isinstance(env.get(e.func.id), tuple) and env[e.func.id][0] == "lazy":
            bound = env[e.func.id][1]
            if isinstance(bound, ast.Name) and bound.id in self.p.classes:
                return self._call(f, ast.Call(func=bound, args=e.args, keywords=e.keywords), env)
            if isinstance(bound, ast.IfExp) and all(isinstance(x, ast.Name) and x.id in self.p.classes for x in (bound.body, bound.orelse)):
                arms = self._arms(bound.test)
                calls = [ast.Call(func=x, args=e.args, keywords=e.keywords) for x in (bound.body, bound.orelse)]
                if arms[0] is not None and arms[1] is not None:
                    # decided by the sign assumption in force; without one, both arms must denote the same operator
                    for asm, c in zip(arms, calls):
                        if asm and all(self.assume.get(k2) == v2 for k2, v2 in asm.items()):
                            return self._call(f, c, env)
                va, vb = (self._call(f, c, env) for c in calls)
                if self.alg.equal(self._mat(f, va), self._mat(f, vb)):
                    return va
                raise AnalysisError(f"{f.qualname}: conditional class choice with different operators: {norm(bound)[:50]}")
        # constructor of a matrix class / type(self)
        target = None
        if isinstance(e.func, ast.Name) and e.func.id in self.p.classes and self.p.classes[e.func.id].is_subclass_of("Matrix"):
            target = self.p.classes[e.func.id]
        elif norm(e.func) == "type(self)":
            target = self.k
        if target is not None:
            init = target.resolve("__init__")
            ps = init.params[1:]
            args = {}

            def _arg(a):
                # an argument the algebra cannot evaluate (e.g. a re-packed LU array, which no algebraic obligation
                # reads: C10-R12 decides it) stays opaque; using it as a matrix later is still an error
                try:
                    return self.ev(f, a, env)
                except AnalysisError:
                    return Val("other", norm(a)[:60])

            for p, a in zip(ps, e.args):
                args[p] = _arg(a)
            for kw in e.keywords:
                args[kw.arg] = _arg(kw.value)
            return Val("obj", cls=target.name, args=args)
        raise AnalysisError(f"{f.qualname}: call outside the matrix grammar: {norm(e)[:60]}")

    def _truth(self, f, e, env) -> bool:
        if isinstance(e, ast.Constant):
            return bool(e.value)
        if isinstance(e, ast.UnaryOp) and isinstance(e.op, ast.Not):
            return not self._truth(f, e.operand, env)
        v = self.ev(f, e, env)
        if v.kind == "bool" and isinstance(v.v, bool):
            return v.v
        if v.kind == "scalar" and v.v.is_const():
            return v.v.const_value() != 0
        raise AnalysisError(f"{f.qualname}: truth value of {norm(e)[:40]} unknown")

    def _pick(self, sub):
        """Choose the return consistent with the current assumptions."""
        for asm, v in sub:
            if all(self.assume.get(k2) == v2 for k2, v2 in asm.items() if k2 in self.assume):
                return v
        return sub[-1][1]

    def _scalar_parts(self):
        """scalar = a * g with a = |scalar| and g its sign (g**2 == 1)."""
        a = Rat.sym("|c|")
        if self.assume.get("g") == 1:
            g = Rat.const(1)
        elif self.assume.get("g") == -1:
            g = Rat.const(-1)
        elif self.assume.get("g=s"):
            g = self.attrs["<s>"]
        elif self.assume.get("g=-s"):
            g = -self.attrs["<s>"]
        else:
            g = sign_atom("c")
        return a, g

    def scalar_param(self) -> Rat:
        a, g = self._scalar_parts()
        return a * g
