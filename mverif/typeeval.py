"""E6 - parity / homogeneity-degree typing of matrix expressions.

An expression is evaluated in an abelian group with a top element: Z2 (parity under a sign-flip
symmetry of a class family) or Q (homogeneity degree under a scaling of a defining parameter).
Products add types, quotients subtract, sums need equal types (otherwise TOP = "mixes parities /
degrees", i.e. the value is not a pure odd/even/homogeneous function), inverses negate.
"""

from __future__ import annotations

import ast
from fractions import Fraction

from .model import ClassInfo, FuncInfo, call_name, is_self_attr, norm, strip_copy
from .report import AnalysisError

TOP = "TOP"

SAME_ATTRS = {"T", "array", "diagonal", "transpose", "real", "flat"}
SAME_FUNCS = {"np.tril", "np.triu", "_make_array_triangular", "np.asarray", "np.array", "np.concatenate", "np.sum", "np.trace", "np.outer", "np.dot", "np.einsum", "np.transpose", "np.atleast_2d", "np.identity", "np.eye", "np.zeros_like", "np.ones_like", "tuple", "list", "sum", "np.negative"}
PRODUCT_FUNCS = {"np.outer", "np.dot", "np.matmul", "np.multiply", "np.kron"}


Z = "Z"  # the zero matrix entry: identity for sums, absorbing for products


class DO(tuple):
    """Positional type of a square array: (type on the diagonal, type off the diagonal); either
    component may be Z (entries are zero there).  Plain types t stand for DO(t, t)."""

    def __new__(cls, d, o):
        return super().__new__(cls, (d, o))

    @property
    def d(self):
        return self[0]

    @property
    def o(self):
        return self[1]


class Mask:
    """A boolean array; `on_diag`: known to be True on the diagonal."""

    def __init__(self, on_diag: bool):
        self.on_diag = on_diag

    def __eq__(self, other):
        return isinstance(other, Mask) and other.on_diag == self.on_diag

    def __hash__(self):
        return hash(("Mask", self.on_diag))

    def __repr__(self):
        return f"Mask(on_diag={self.on_diag})"


def _plain(t):
    """A positional type whose two components agree is the plain type."""
    if isinstance(t, DO) and t.d == t.o and t.d != Z:
        return t.d
    return t


def _lift2(fn):
    """Lift a binary lattice operation on plain types component-wise to DO values."""

    def wrapped(self, a, b):
        if isinstance(a, DO) or isinstance(b, DO):
            a2 = a if isinstance(a, DO) else DO(a, a)
            b2 = b if isinstance(b, DO) else DO(b, b)
            return _plain(DO(fn(self, a2.d, b2.d), fn(self, a2.o, b2.o)))
        return fn(self, a, b)

    return wrapped


class Lattice:
    """mode 'parity': values 0/1 (mod 2); mode 'degree': Fractions."""

    def __init__(self, mode: str):
        self.mode = mode
        self.zero = 0 if mode == "parity" else Fraction(0)

    @_lift2
    def add(self, a, b):
        if a == TOP or b == TOP:
            return TOP
        if a == Z or b == Z:
            return Z
        return (a + b) % 2 if self.mode == "parity" else a + b

    def neg(self, a):
        if isinstance(a, DO):
            return DO(self.neg(a.d), self.neg(a.o))
        if a == TOP or a == Z:
            return TOP  # 1 / 0
        return a if self.mode == "parity" else -a

    def collapse(self, a):
        """A positional type seen as one array (e.g. as an operand of a matrix product)."""
        if not isinstance(a, DO):
            return a
        if a.d == Z:
            return a.o
        if a.o == Z:
            return a.d
        return a.d if a.d == a.o else TOP

    def scale(self, a, k):
        """type of x**k"""
        if isinstance(a, DO):
            return DO(self.scale(a.d, k), self.scale(a.o, k))
        if a == Z:
            return Z if Fraction(k) > 0 else TOP
        if a == TOP:
            return TOP
        k = Fraction(k)
        if self.mode == "parity":
            if k.denominator != 1:
                return TOP if a else 0
            return (a * int(k)) % 2
        return a * k

    @_lift2
    def join_sum(self, a, b):
        if a == Z:
            return b
        if b == Z:
            return a
        if a == TOP or b == TOP:
            return TOP
        return a if a == b else TOP


class TypeEval:
    def __init__(self, k: ClassInfo, lattice: Lattice, atom_types: dict, self_type=None, on_unknown_call="top"):
        """atom_types: 'self.<attr>' / '<param>' / 'self.<property>' -> type.
        self_type: type of the matrix itself (for self.inv, self @ x, self.array)."""
        self.k = k
        self.L = lattice
        self.atoms = dict(atom_types)
        self.self_type = self_type
        self.depth = 0

    def func(self, f: FuncInfo, arg_types: dict | None = None):
        env = dict(arg_types or {})
        for p in f.params[1:]:
            env.setdefault(p, self.atoms.get(p, self.L.zero))
        result = None
        for st in f.body_without_docstring():
            res = self._stmt(f, st, env)
            if res is not None:
                result = res if result is None else self.L.join_sum(result, res)
        return self.L.collapse(result)

    def _stmt(self, f, st, env):
        if isinstance(st, ast.Return):
            return self.ev(f, st.value, env) if st.value is not None else None
        if isinstance(st, ast.Assign) and len(st.targets) == 1:
            t = st.targets[0]
            if is_self_attr(t):
                # lazy slot fill inside a property: the slot takes the type of its definition
                self.atoms[norm(t)] = self.ev(f, st.value, env)
                return None
            if isinstance(t, ast.Name):
                env[t.id] = self.ev(f, st.value, env)
            elif isinstance(t, ast.Tuple) and isinstance(st.value, ast.Tuple):
                for tt, vv in zip(t.elts, st.value.elts):
                    if isinstance(tt, ast.Name):
                        env[tt.id] = self.ev(f, vv, env)
            elif isinstance(t, ast.Tuple):
                v = self.ev(f, st.value, env)
                for tt in t.elts:
                    if isinstance(tt, ast.Name):
                        env[tt.id] = v
            return None
        if isinstance(st, ast.AugAssign) and isinstance(st.target, ast.Name):
            cur = env.get(st.target.id, self.L.zero)
            v = self.ev(f, st.value, env)
            if isinstance(st.op, (ast.Add, ast.Sub)):
                env[st.target.id] = self.L.join_sum(cur, v)
            elif isinstance(st.op, ast.Mult):
                env[st.target.id] = self.L.add(cur, v)
            elif isinstance(st.op, ast.Div):
                env[st.target.id] = self.L.add(cur, self.L.neg(v))
            return None
        if isinstance(st, ast.If):
            out = None
            for arm in (st.body, st.orelse):
                e2 = dict(env)
                for s in arm:
                    r = self._stmt(f, s, e2)
                    if r is not None:
                        out = r if out is None else self.L.join_sum(out, r)
            return out
        if isinstance(st, ast.Expr) and isinstance(st.value, ast.Call) and call_name(st.value) == "np.fill_diagonal" and len(st.value.args) == 2 and isinstance(st.value.args[0], ast.Name):
            nm = st.value.args[0].id
            cur = env.get(nm, self.L.zero)
            cur = cur if isinstance(cur, DO) else DO(cur, cur)
            env[nm] = DO(self.L.collapse(self.ev(f, st.value.args[1], env)), cur.o)
            return None
        if isinstance(st, ast.Try):
            out = None
            for s2 in list(st.body) + list(st.orelse) + list(st.finalbody):
                r2 = self._stmt(f, s2, env)
                if r2 is not None:
                    out = r2 if out is None else self.L.join_sum(out, r2)
            return out  # handlers that only re-raise do not produce values
        if isinstance(st, ast.Assign) and len(st.targets) == 1 and is_self_attr(st.targets[0]):
            # lazy slot fill inside a property: the slot takes the type of its definition
            self.atoms[norm(st.targets[0])] = self.ev(f, st.value, env)
            return None
        if isinstance(st, ast.With):
            # context managers that only set floating-point error handling (np.errstate) / warnings do not change values
            if all(isinstance(it.context_expr, ast.Call) and call_name(it.context_expr) in ("np.errstate", "warnings.catch_warnings", "contextlib.suppress", "suppress") for it in st.items):
                out = None
                for s2 in st.body:
                    r2 = self._stmt(f, s2, env)
                    if r2 is not None:
                        out = r2 if out is None else self.L.join_sum(out, r2)
                return out
        if isinstance(st, (ast.Raise, ast.Expr, ast.Pass)):
            return None
        raise AnalysisError(f"{f.qualname}: statement outside the typing grammar: {norm(st)[:60]}")

    def ev(self, f, e, env):
        e = strip_copy(e)
        L = self.L
        if isinstance(e, ast.Constant):
            return L.zero
        if isinstance(e, ast.Compare) and len(e.ops) == 1:
            # a boolean mask: all that is kept is whether it is known to hold on the diagonal -
            # `|X| <= nonneg` / `X == 0` / `np.isclose(X, 0)` hold wherever X is identically zero
            left = e.left
            if isinstance(left, ast.Call) and call_name(left) in ("abs", "np.abs", "np.absolute") and left.args:
                left = left.args[0]
            t = self.ev(f, left, env)
            on_diag = isinstance(t, DO) and t.d == Z and isinstance(e.ops[0], (ast.LtE, ast.Eq))
            return Mask(on_diag)
        if isinstance(e, ast.Call) and call_name(e) == "np.where" and len(e.args) == 3:
            m = self.ev(f, e.args[0], env)
            a, b = self.ev(f, e.args[1], env), self.ev(f, e.args[2], env)
            if not isinstance(m, Mask):
                return TOP
            a2 = a if isinstance(a, DO) else DO(a, a)
            b2 = b if isinstance(b, DO) else DO(b, b)
            # where the mask is known to hold only the first operand is read
            return _plain(DO(a2.d if m.on_diag else L.join_sum(a2.d, b2.d), L.join_sum(a2.o, b2.o)))
        if isinstance(e, ast.Name):
            if e.id in env:
                return env[e.id]
            return self.atoms.get(e.id, L.zero)
        if isinstance(e, ast.Attribute):
            txt = norm(e)
            if txt in self.atoms:
                return self.atoms[txt]
            if is_self_attr(e):
                if e.attr in ("inv",):
                    return L.neg(self._self_type())
                if e.attr in ("array", "T", "transpose"):
                    return self._self_type()
                if e.attr in ("shape",):
                    return L.zero
                g = self.k.resolve(e.attr)
                if g is not None and g.is_property:
                    self.depth += 1
                    if self.depth > 8:
                        raise AnalysisError("property recursion")
                    try:
                        return self.func(g)
                    finally:
                        self.depth -= 1
                return self.atoms.get(txt, L.zero)
            base = self.ev(f, e.value, env)
            if e.attr in SAME_ATTRS or e.attr in ("lower", "shape", "size", "ndim"):
                return base if e.attr in SAME_ATTRS else L.zero
            if e.attr == "inv":
                return L.neg(base)
            if e.attr == "sqrt":
                return L.scale(base, Fraction(1, 2))
            if e.attr in ("grad_log_abs_det", "log_abs_det", "eigval", "eigvec"):
                return L.zero if base == L.zero else TOP
            return base
        if isinstance(e, ast.UnaryOp):
            return self.ev(f, e.operand, env)
        if isinstance(e, ast.BinOp):
            if (
                isinstance(e.op, (ast.Sub, ast.Add))
                and isinstance(e.left, ast.Subscript)
                and isinstance(e.right, ast.Subscript)
                and norm(e.left.value) == norm(e.right.value)
                and {norm(e.left)[len(norm(e.left.value)):], norm(e.right)[len(norm(e.right.value)):]} == {"[:, None]", "[None, :]"}
            ):
                # x[:, None] - x[None, :]: zero on the diagonal (for Sub), type of x elsewhere
                t = L.collapse(self.ev(f, e.left.value, env))
                return DO(Z if isinstance(e.op, ast.Sub) else t, t)
            a, b = self.ev(f, e.left, env), self.ev(f, e.right, env)
            if isinstance(e.op, ast.MatMult):
                return L.add(L.collapse(a), L.collapse(b))
            if isinstance(e.op, ast.Mult):
                return L.add(a, b)
            if isinstance(e.op, ast.Div):
                return L.add(a, L.neg(b))
            if isinstance(e.op, (ast.Add, ast.Sub)):
                # adding a constant (type zero literal) to a typed value mixes unless equal
                return L.join_sum(a, b)
            if isinstance(e.op, ast.Pow):
                if isinstance(e.right, ast.Constant) and isinstance(e.right.value, (int, float)):
                    return L.scale(a, Fraction(str(e.right.value)))
                if isinstance(e.right, ast.UnaryOp) and isinstance(e.right.operand, ast.Constant):
                    return L.scale(a, -Fraction(str(e.right.operand.value)))
                return TOP if a != L.zero else L.zero
        if isinstance(e, ast.Subscript):
            return self.ev(f, e.value, env)
        if isinstance(e, (ast.Tuple, ast.List)):
            out = None
            for x in e.elts:
                t = self.ev(f, x, env)
                out = t if out is None else L.join_sum(out, t)
            return out if out is not None else L.zero
        if isinstance(e, ast.IfExp):
            return L.join_sum(self.ev(f, e.body, env), self.ev(f, e.orelse, env))
        if isinstance(e, ast.Call):
            cn = call_name(e)
            args = [self.ev(f, a, env) for a in e.args]
            if cn in ("abs", "np.abs", "np.absolute"):
                a = args[0]
                return (L.zero if a != TOP else TOP) if L.mode == "parity" else a
            if cn in ("np.sign",):
                return args[0] if L.mode == "parity" else L.zero
            if cn in PRODUCT_FUNCS:
                out = L.zero
                for a in args:
                    out = L.add(out, a)
                return out
            if cn in ("np.reciprocal",) and len(args) == 1:
                return L.scale(args[0], Fraction(-1, 1))
            if cn in ("np.divide", "np.true_divide") and len(args) == 2:
                return L.add(args[0], L.scale(args[1], Fraction(-1, 1)))
            if cn in ("np.sqrt", "sla.sqrtm"):
                return L.scale(args[0], Fraction(1, 2)) if cn == "np.sqrt" else (L.zero if args[0] == L.zero else TOP)
            if cn in ("np.tanh", "np.sinh", "np.sin", "np.arctan", "np.arcsinh", "np.tan") and len(args) == 1:
                # odd functions keep the parity of their argument; no homogeneity unless degree 0
                if L.mode == "parity":
                    return args[0]
                return L.zero if args[0] == L.zero else TOP
            if cn in ("np.cosh", "np.cos") and len(args) == 1:
                if L.mode == "parity":
                    return TOP if args[0] == TOP else L.zero
                return L.zero if args[0] == L.zero else TOP
            if cn == "np.diag" and len(args) == 1:
                a = args[0]
                return a.d if isinstance(a, DO) else DO(a, Z)
            last = cn.split(".")[-1]
            if last in ("TriangularMatrix", "DiagonalMatrix", "PositiveDiagonalMatrix", "DenseSymmetricMatrix", "DenseSquareMatrix", "DenseRectangularMatrix", "DensePositiveDefiniteMatrix", "DenseDefiniteMatrix", "ScaledIdentityMatrix", "PositiveScaledIdentityMatrix") and args:
                return L.collapse(args[0])  # the matrix whose entries are the first argument
            if last in ("InverseTriangularMatrix",) and args:
                return L.neg(L.collapse(args[0]))
            if cn.split(".")[-1] in ("EigendecomposedSymmetricMatrix", "EigendecomposedPositiveDefiniteMatrix") and len(args) == 2:
                return L.add(L.add(L.collapse(args[0]), L.collapse(args[0])), L.collapse(args[1]))
            if cn in ("np.log", "np.exp", "nla.eigh", "sla.lu_factor"):
                return L.zero if all(a == L.zero for a in args) else TOP
            if cn in SAME_FUNCS:
                out = None
                for a in args:
                    out = a if out is None else L.join_sum(out, a)
                return out if out is not None else L.zero
            if cn in ("sla.solve_triangular", "sla.lu_solve", "nla.solve", "sla.solve"):
                return L.add(L.neg(args[0]), args[1])
            if cn in ("sla.cho_solve",) and len(e.args) >= 2 and isinstance(e.args[0], ast.Tuple) and e.args[0].elts:
                c = L.collapse(self.ev(f, e.args[0].elts[0], env))
                return L.add(L.neg(L.add(c, c)), args[1])
            if cn in ("nla.cholesky", "np.linalg.cholesky", "sla.cholesky") and len(args) == 1:
                return L.scale(args[0], Fraction(1, 2))
            # method call on a typed object
            if isinstance(e.func, ast.Attribute):
                base = self.ev(f, e.func.value, env) if not (isinstance(e.func.value, ast.Name) and e.func.value.id in ("np", "sla", "nla")) else L.zero
                if e.func.attr in ("sum", "copy", "diagonal", "reshape", "ravel", "squeeze", "transpose", "astype", "view", "flatten", "conj", "mean"):
                    return base
                if is_self_attr(e.func):
                    g = self.k.resolve(e.func.attr)
                    if g is not None:
                        self.depth += 1
                        if self.depth > 8:
                            raise AnalysisError("method recursion")
                        try:
                            return self.func(g, dict(zip(g.params[1:], args)))
                        finally:
                            self.depth -= 1
            if all(a == L.zero for a in args):
                return L.zero
            return TOP
        if isinstance(e, (ast.GeneratorExp, ast.ListComp)):
            return self.ev(f, e.elt, env)
        raise AnalysisError(f"{f.qualname}: expression outside the typing grammar: {norm(e)[:60]}")

    def _self_type(self):
        if self.self_type is None:
            raise AnalysisError("type of the matrix itself is needed but not declared")
        return self.self_type
