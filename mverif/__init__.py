"""mverif - repository-specific static analysis for matt-graham/mici.

Everything here decides properties from the *source text* of /repo/src/mici
(``ast`` only); nothing in mici is imported or executed by a check.
"""
