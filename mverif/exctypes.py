"""Exception class hierarchy as far as the rules need it: mici.errors (from the parsed
program), Python builtins (from the interpreter's own builtins module - static knowledge
about the language, not about mici) and the numpy LinAlgError < ValueError fact."""

from __future__ import annotations

import ast
import builtins

from .model import Program, norm

EXTERNAL_BASES = {
    "numpy.linalg.LinAlgError": "builtins.ValueError",
    "nla.LinAlgError": "builtins.ValueError",
    "queue.Empty": "builtins.Exception",
    "pickle.PicklingError": "builtins.Exception",
}


class ExcTypes:
    def __init__(self, program: Program) -> None:
        self.p = program

    def canon(self, name: str, module=None) -> str | None:
        """Canonical dotted name of an exception class referred to as ``name``."""
        if name in self.p.classes and any(
            b in ("RuntimeError", "Exception") or b in self.p.classes for b in self.p.classes[name].base_names
        ):
            if module is None or name in module.classes or module.imports.get(name, "").startswith("mici."):
                return f"mici.{name}"
        if module is not None and name in module.imports:
            d = module.imports[name]
            if d.startswith("mici.") and d.split(".")[-1] in self.p.classes:
                return f"mici.{d.split('.')[-1]}"
            return d
        if hasattr(builtins, name) and isinstance(getattr(builtins, name), type) and issubclass(getattr(builtins, name), BaseException):
            return f"builtins.{name}"
        if "." in name:
            head = name.split(".")[0]
            if module is not None and head in module.imports:
                return module.imports[head] + name[len(head):]
        return None

    def supers(self, c: str) -> list[str]:
        out = [c]
        if c.startswith("mici."):
            ci = self.p.classes[c[5:]]
            for k in ci.mro[1:]:
                out.append(f"mici.{k.name}")
            for k in ci.mro:
                for b in k.external_bases:
                    cb = self.canon(b, k.module)
                    if cb:
                        out += self.supers(cb)
        elif c.startswith("builtins."):
            for k in getattr(builtins, c[9:]).__mro__[1:]:
                if k is not object:
                    out.append(f"builtins.{k.__name__}")
        elif c in EXTERNAL_BASES:
            out += self.supers(EXTERNAL_BASES[c])
        else:
            for k, v in EXTERNAL_BASES.items():
                if k.split(".")[-1] == c.split(".")[-1]:
                    out += self.supers(v)
                    break
        return out

    def is_subclass(self, a: str, b: str) -> bool:
        return b in self.supers(a)

    def handler_types(self, h: ast.ExceptHandler, module) -> list[str] | None:
        """Canonical names caught by a handler; ['builtins.BaseException'] for bare except;
        None when a type cannot be resolved."""
        if h.type is None:
            return ["builtins.BaseException"]
        elts = h.type.elts if isinstance(h.type, ast.Tuple) else [h.type]
        out = []
        for e in elts:
            c = self.canon(norm(e), module)
            if c is None:
                return None
            out.append(c)
        return out

    def catches(self, h: ast.ExceptHandler, raised: str | None, module) -> bool | None:
        if raised is None:
            return None
        hts = self.handler_types(h, module)
        if hts is None:
            return None
        return any(self.is_subclass(raised, t) for t in hts)

    def raised_class(self, st: ast.Raise, module) -> str | None:
        if st.exc is None:
            return None
        e = st.exc.func if isinstance(st.exc, ast.Call) else st.exc
        return self.canon(norm(e), module)
