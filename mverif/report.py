"""Findings, three-valued outcome, known-findings file and evidence writer."""

from __future__ import annotations

import json
import os
import time
from dataclasses import dataclass, field
from pathlib import Path

VERIF = Path(__file__).resolve().parent.parent


class AnalysisError(Exception):
    """The analysis cannot decide (anchor vanished / construct outside grammar).

    Never a violation, never a silent pass: the CLI turns it into exit 2.
    """


@dataclass
class Finding:
    prop: str
    rule: str
    key: str  # construct key: Class.function:normalised-construct (no line numbers)
    what: str
    file: str = ""
    line: int = 0
    facts: dict = field(default_factory=dict)

    def ident(self) -> tuple[str, str, str]:
        return (self.prop, self.rule, self.key)


@dataclass
class RuleResult:
    rule: str
    title: str
    instances: int = 0  # instances matched
    exercised: int = 0  # instances on which the check did real work
    floor: int = 0  # fail closed (exit 2) below this
    samples: list = field(default_factory=list)
    findings: list = field(default_factory=list)
    notes: list = field(default_factory=list)
    positive_control: bool | None = None  # embedded must-fire example fired?
    units: set | None = None  # if set, the floor counts these distinct units (e.g. (class, member) pairs) instead of instances

    def inst(self, sample=None, *, exercised: bool = True) -> None:
        self.instances += 1
        if exercised:
            self.exercised += 1
        if sample is not None and len(self.samples) < 6:
            self.samples.append(sample)

    def violate(self, prop, key, what, node=None, file="", **facts) -> None:
        line = getattr(node, "lineno", 0) if node is not None else 0
        self.findings.append(
            Finding(prop, self.rule, key, what, file=file, line=line, facts=facts)
        )


def load_known() -> dict:
    p = VERIF / "known_findings.json"
    if not p.exists():
        return {"findings": [], "fixed": []}
    return json.loads(p.read_text())


class Report:
    def __init__(self, prop: str, tier: str) -> None:
        self.prop = prop
        self.tier = tier
        self.rules: list[RuleResult] = []
        self.t0 = time.time()
        self.assumptions: list[str] = []
        self.explanation = ""
        self.extra: dict = {}
        self.errors: list[str] = []

    def isolate(self, fn, *args, **kwargs):
        """Run one rule; an AnalysisError (idiom not recognised) is recorded and the remaining rules
        still run, so that one undecidable rule does not hide the verdicts of the others.  The run
        as a whole then ends with exit 2 unless some rule found a violation (exit 1)."""
        try:
            return fn(*args, **kwargs)
        except AnalysisError as e:
            if str(e) not in self.errors:
                self.errors.append(str(e))
            return None

    def rule(self, rule: str, title: str, floor: int = 0) -> RuleResult:
        r = RuleResult(rule=rule, title=title, floor=floor)
        self.rules.append(r)
        return r

    # ------------------------------------------------------------------
    def finish(self, program=None) -> int:
        known = load_known()
        known_keys = {
            (k["property"], k["rule"], k["key"])
            for k in known.get("findings", [])
            if k.get("status", "known") == "known"
        }
        outdir = Path(os.environ.get("MVERIF_OUT", VERIF / "out"))
        outdir.mkdir(parents=True, exist_ok=True)
        violations = []
        known_hits = []
        errors = list(self.errors)
        for r in self.rules:
            status = "ok"
            counted = len(r.units) if r.units is not None else r.instances
            if counted < r.floor and not r.findings:  # a reported finding already explains instances that were not reached
                errors.append(
                    f"rule {r.rule}: matched {counted} {'units' if r.units is not None else 'instances'}, floor is "
                    f"{r.floor} (anchor vanished or idiom not recognised)"
                )
                status = "BELOW-FLOOR"
            if r.positive_control is False:
                errors.append(f"rule {r.rule}: embedded positive control did not fire")
                status = "CONTROL-FAILED"
            print(
                f"[{self.prop}-{r.rule}] {r.title}: instances={r.instances} "
                f"exercised={r.exercised} findings={len(r.findings)} {status}"
            )
            for n in r.notes:
                print(f"    note: {n}")
            for f in r.findings:
                if f.ident() in known_keys:
                    known_hits.append(f)
                else:
                    violations.append(f)
        for f in known_hits:
            print(f"KNOWN-FINDING: property={f.prop} [{f.rule}] {f.key}: {f.what}")
        n = 0
        for f in violations:
            n += 1
            path = outdir / f"{self.prop}-{n}.json"
            path.write_text(
                json.dumps(
                    {
                        "property": f.prop,
                        "rule": f.rule,
                        "key": f.key,
                        "what": f.what,
                        "file": f.file,
                        "line": f.line,
                        "facts": f.facts,
                        "replay": f"./check {self.prop} --replay {path}",
                    },
                    indent=1,
                    default=str,
                )
            )
            print(
                f"  {f.file}:{f.line}: [{f.prop}-{f.rule}] {f.key}: {f.what}"
            )
            print(f"VIOLATION property={self.prop} replay={path}")
        self._write_evidence(program, len(violations), len(known_hits), errors)
        if errors:
            for e in errors:
                print(f"ANALYSIS-ERROR property={self.prop} {e}")
            # a violation found by a healthy rule is still a violation
            return 1 if violations else 2
        return 1 if violations else 0

    # ------------------------------------------------------------------
    def _write_evidence(self, program, n_viol, n_known, errors) -> None:
        obligations = sum(r.instances for r in self.rules)
        discharged = obligations - sum(len(r.findings) for r in self.rules)
        exercised = sum(r.exercised for r in self.rules)
        samples = []
        for r in self.rules:
            for s in r.samples[:3]:
                samples.append({"rule": r.rule, "instance": s})
        cov = {
            "explanation": self.explanation
            or "; ".join(f"{r.rule}: {r.title}" for r in self.rules),
            "obligations": obligations,
            "discharged": max(discharged, 0),
            "evaluations": max(obligations, 1),
            "distinct_nontrivial": exercised,
            "rule": "one evaluation = one rule instance instantiated from the current "
            "source (class x method, call site, exit path, expression); "
            "non-trivial = the instance reached the rule's comparison "
            "(not merely matched a name); instances are distinct by construct key",
            "samples": samples or [{"note": "no instances"}],
            "exhaustive": True,
            "rules": [
                {
                    "rule": r.rule,
                    "title": r.title,
                    "instances": r.instances,
                    "exercised": r.exercised,
                    "floor": r.floor,
                    "findings": [f.key for f in r.findings],
                    "positive_control_fired": r.positive_control,
                }
                for r in self.rules
            ],
            "known_findings_printed": n_known,
            "analysis_errors": errors,
        }
        if program is not None:
            cov.update(program.coverage_summary())
        cov.update(self.extra)
        ev = {
            "property_id": self.prop,
            "tier": self.tier,
            "seed": int(os.environ.get("VERIF_SEED", "0") or 0),
            "level": "other",
            "coverage": cov,
            "assumptions": self.assumptions,
            "wall_s": round(time.time() - self.t0, 3),
            "violations": n_viol,
        }
        evdir = Path(os.environ.get("MVERIF_EVIDENCE", VERIF / "evidence"))
        evdir.mkdir(parents=True, exist_ok=True)
        (evdir / f"{self.prop}.json").write_text(json.dumps(ev, indent=1, default=str))
