"""Reversibility of ConstrainedLeapfrogIntegrator when user functions return views of their argument."""
import numpy as np, mici, sys

def run(view):
    # constraint q0 + q1 + q2 = 1 (linear), Jacobian constant; make the user jacobian return a view of its input on purpose:
    # use c(q) = 0.5*|q|^2 - 0.5 (sphere): jacob = q[None] (a view of q) vs q[None].copy()
    constr = lambda q: np.array([0.5 * q @ q - 0.5])
    jac = (lambda q: q[None]) if view else (lambda q: q[None].copy())
    system = mici.systems.DenseConstrainedEuclideanMetricSystem(
        neg_log_dens=lambda q: 0.5 * (q - 0.3) @ (q - 0.3), grad_neg_log_dens=lambda q: q - 0.3,
        constr=constr, jacob_constr=jac, dens_wrt_hausdorff=True)
    integ = mici.integrators.ConstrainedLeapfrogIntegrator(system, step_size=0.3, n_inner_step=2)
    rng = np.random.default_rng(1)
    q = rng.standard_normal(3); q /= np.linalg.norm(q)
    state = mici.states.ChainState(pos=q, mom=None, dir=1)
    state.mom = system.sample_momentum(state, rng)
    s = state
    n = 4
    try:
        for _ in range(n): s = integ.step(s)
        s.dir *= -1
        for _ in range(n): s = integ.step(s)
    except mici.errors.Error as e:
        return "raised " + type(e).__name__
    return float(np.abs(s.pos - state.pos).max()), float(np.abs(s.mom - state.mom).max())
print("copying jacobian:", run(False))
print("view jacobian:   ", run(True))
