"""SoftAbs gradient of v^T M^-1 v with repeated eigenvalues of the parameter (C11 quantifier)."""
import sys, warnings
import numpy as np
import mici.matrices as mm
warnings.simplefilter("ignore")

def num_grad(a, v, coeff, h=1e-6):
    g = np.zeros_like(a)
    for i in range(a.shape[0]):
        for j in range(a.shape[1]):
            e = np.zeros_like(a); e[i, j] = e[j, i] = 0.5 * h if i != j else h
            if i != j: e[i, j] = e[j, i] = 0.5 * h
            fp = v @ (mm.SoftAbsRegularizedPositiveDefiniteMatrix(a + e, coeff).inv @ v)
            fm = v @ (mm.SoftAbsRegularizedPositiveDefiniteMatrix(a - e, coeff).inv @ v)
            g[i, j] = (fp - fm) / (2 * h)
    return g

bad = []
rng = np.random.default_rng(1)
for name, a in {"2*I (3x3)": 2.0 * np.eye(3), "diag(1,1,3)": np.diag([1.0, 1.0, 3.0]), "rotated diag(2,2,-1)": None, "generic": None}.items():
    if name.startswith("rotated"):
        q, _ = np.linalg.qr(rng.standard_normal((3, 3))); a = q @ np.diag([2.0, 2.0, -1.0]) @ q.T; a = (a + a.T) / 2
    if name == "generic":
        b = rng.standard_normal((3, 3)); a = b + b.T
    v = rng.standard_normal(3)
    g = mm.SoftAbsRegularizedPositiveDefiniteMatrix(a, 1.3).grad_quadratic_form_inv(v)
    ref = num_grad(a, v, 1.3)
    if not np.all(np.isfinite(g)):
        bad.append(f"{name}: gradient contains NaN/inf")
    elif not np.allclose((g + g.T) / 2, (ref + ref.T) / 2, rtol=1e-4, atol=1e-6):
        bad.append(f"{name}: differs from finite differences by {abs((g+g.T)/2 - (ref+ref.T)/2).max():.2e}")
if bad:
    print("FAIL"); print("\n".join(bad)); sys.exit(1)
print("PASS")
