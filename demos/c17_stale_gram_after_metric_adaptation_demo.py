import numpy as np, mici
from mici.states import ChainState
from mici.systems import DenseConstrainedEuclideanMetricSystem
from mici.adapters import OnlineVarianceMetricAdapter
from mici.transitions import MultinomialDynamicIntegrationTransition
from mici.integrators import ConstrainedLeapfrogIntegrator

def nld(q): return 0.5*np.sum(q**2)
def gnld(q): return q
def constr(q): return np.array([q[0]**2 + q[1]**2 + q[2]**2 - 1.0])
def jacob(q): return 2*q[None, :]
system = DenseConstrainedEuclideanMetricSystem(nld, constr, grad_neg_log_dens=gnld, jacob_constr=jacob, dens_wrt_hausdorff=True)
integrator = ConstrainedLeapfrogIntegrator(system, step_size=0.1)
transition = MultinomialDynamicIntegrationTransition(system, integrator)
rng = np.random.default_rng(1)
q = np.array([0.6, 0.0, 0.8])
state = ChainState(pos=q, mom=None, dir=1)
state.mom = system.sample_momentum(state, rng)
adapter = OnlineVarianceMetricAdapter()
ast = adapter.initialize(state, transition)
for _ in range(20):
    state, stats = transition.sample(state, rng)
    state.mom = system.sample_momentum(state, rng)
    adapter.update(ast, state, stats, transition)
adapter.finalize(ast, state, transition, rng)   # sets system.metric and re-samples state.mom
res = system.jacob_constr(state) @ (system.metric.inv @ state.mom)
print("metric diag:", system.metric.diagonal)
print("|J M^-1 p| after the adapter refreshed the momentum under the new metric:", np.abs(res).max())
fresh = ChainState(pos=state.pos.copy(), mom=state.mom.copy(), dir=1)
p2 = system.project_onto_cotangent_space(state.mom.copy(), fresh)
print("from-scratch projection residual:", np.abs(system.jacob_constr(fresh) @ (system.metric.inv @ p2)).max())
bad = np.abs(res).max() > 1e-8
print("FAIL" if bad else "PASS"); raise SystemExit(1 if bad else 0)
