"""hash / equality contract of matrix objects: equal parameters (np.array_equal) => equal hash,
with and without the optional xxhash accelerator (emulated by a hashlib-backed stand-in: the
digest depends only on the bytes fed to it, which is all that matters here)."""
import hashlib, sys, types
import numpy as np

def run(with_xxhash):
    for m in [k for k in sys.modules if k == "mici" or k.startswith("mici.")]:
        del sys.modules[m]
    sys.modules.pop("xxhash", None)
    if with_xxhash:
        x = types.ModuleType("xxhash")
        class xxh64:
            def __init__(self): self._h = hashlib.blake2b(digest_size=8)
            def update(self, b): self._h.update(b)
            def intdigest(self): return int.from_bytes(self._h.digest(), "little")
        x.xxh64 = xxh64
        sys.modules["xxhash"] = x
    else:
        sys.modules["xxhash"] = None  # import fails
    import mici.matrices as mm
    a = np.array([[2.0, 1.0], [0.5, 3.0]])
    cases = {
        "int vs float diagonal": (mm.PositiveDiagonalMatrix(np.array([1, 2])), mm.PositiveDiagonalMatrix(np.array([1.0, 2.0]))),
        "signed zero": (mm.DenseSquareMatrix(np.array([[0.0, 1.0], [1.0, 3.0]])), mm.DenseSquareMatrix(np.array([[-0.0, 1.0], [1.0, 3.0]]))),
        "C vs Fortran order": (mm.DenseSquareMatrix(a.copy()), mm.DenseSquareMatrix(np.asfortranarray(a))),
        "transpose of transpose-array": (mm.DenseSquareMatrix(a).T, mm.DenseSquareMatrix(a.T.copy())),
    }
    bad = []
    for name, (p, q) in cases.items():
        try:
            ok = (p == q) and hash(p) == hash(q)
            why = "equal but hash differs" if p == q else "not equal"
        except Exception as e:  # noqa: BLE001
            ok, why = False, f"hash raises {type(e).__name__}: {e}"
        if not ok:
            bad.append(f"[xxhash={'yes' if with_xxhash else 'no'}] {name}: {why}")
    return bad

bad = run(False) + run(True)
if bad:
    print("FAIL"); print("\n".join(bad)); sys.exit(1)
print("PASS")
