"""C14 known finding: with array initial states the HMC samplers draw the missing initial momenta of
all chains from the shared base generator *before* the per-chain streams are derived from it by
`bit_generator.jumped(i)`; the derived streams therefore depend on how many chains are run.

Run: PYTHONPATH=/repo/src /venv/bin/python /verif/demos/c14_chain_count_dependence_demo.py
exit 1 = chain 0 depends on the number of other chains (the finding), exit 0 = independent."""
import numpy as np
import mici


def neg_log_dens(q):
    return 0.5 * np.sum(q**2)


def grad_neg_log_dens(q):
    return q


def run(n_chain, as_states):
    system = mici.systems.EuclideanMetricSystem(neg_log_dens, grad_neg_log_dens=grad_neg_log_dens)
    integrator = mici.integrators.LeapfrogIntegrator(system, step_size=0.3)
    rng = np.random.default_rng(1234)
    sampler = mici.samplers.StaticMetropolisHMC(system, integrator, rng, n_step=3)
    inits = [np.full(2, 0.1 * (i + 1)) for i in range(n_chain)]
    if as_states:
        inits = [mici.states.ChainState(pos=q, mom=np.zeros(2), dir=1) for q in inits]
    out = sampler.sample_chains(0, 5, inits, adapters=[], display_progress=False, n_process=1)
    return out.traces["pos"][0]


bad = 0
for as_states in (True, False):
    a, b = run(1, as_states), run(3, as_states)
    same = np.array_equal(a, b)
    print(("ChainState inits with momenta" if as_states else "array inits (momenta drawn by the sampler)"), "-> chain 0 identical for 1 and 3 chains:", same)
    bad += not same
print("FAIL: chain 0 depends on how many other chains are run" if bad else "PASS")
raise SystemExit(1 if bad else 0)
