import numpy as np, scipy.linalg as sla
from mici import matrices as M
bad=[]
# 1 InverseLUFactoredSquareMatrix inv_array
a=np.array([[2.,1.],[0.,3.]]); m=M.InverseLUFactoredSquareMatrix(a, sla.lu_factor(a), inv_lu_transposed=False)
h0=hash(m); inv0=m.inv.array.copy() if False else None
try:
    a[0,0]=7.0; bad.append(('InverseLU.inv_array writable after construction; m.inv.array now', m.inv.array[0,0]))
except ValueError: pass
# 2 InverseLU lu tuple
a=np.array([[2.,1.],[0.,3.]]); lu=sla.lu_factor(a); m=M.InverseLUFactoredSquareMatrix(a, lu, inv_lu_transposed=False)
before=(m@np.ones(2)).copy()
try:
    lu[0][0,0]=100.; after=m@np.ones(2)
    if not np.allclose(before,after): bad.append(('InverseLU.inv_lu_and_piv writable; m@1 changed', before, after))
except ValueError: pass
# 3 DenseSquareMatrix lu tuple
a=np.array([[2.,1.],[0.,3.]]); lu=sla.lu_factor(a); m=M.DenseSquareMatrix(a, lu, False)
before=m.log_abs_det
try:
    lu[0][0,0]=100.; after=m.log_abs_det
    if before!=after: bad.append(('DenseSquare.lu_and_piv writable; log_abs_det changed', before, after))
except ValueError: pass
# 4 DenseSymmetricMatrix eigval
s=np.array([[2.,0.],[0.,3.]]); ev=np.array([2.,3.]); m=M.DenseSymmetricMatrix(s, np.eye(2), ev)
before=m.log_abs_det
try:
    ev[0]=200.; after=m.log_abs_det
    if before!=after: bad.append(('DenseSymmetric.eigval writable; log_abs_det changed', before, after))
except ValueError: pass
for b in bad: print('DEFECT', b)
print('FAIL' if bad else 'PASS')
