import sys, warnings
import numpy as np
import mici
warnings.simplefilter("ignore")

def make(fault_at, solver):
    count = {"n": 0}
    def constr(q): return np.array([q @ q - 1.0])
    def jacob_constr(q):
        count["n"] += 1
        j = 2 * q[None, :]
        return j * np.nan if count["n"] == fault_at else j
    system = mici.systems.DenseConstrainedEuclideanMetricSystem(
        neg_log_dens=lambda q: 0.5 * q @ q, grad_neg_log_dens=lambda q: q, constr=constr, jacob_constr=jacob_constr, dens_wrt_hausdorff=True)
    integrator = mici.integrators.ConstrainedLeapfrogIntegrator(system, step_size=0.2, projection_solver=solver)
    return system, integrator, count

bad = []
solvers = {"newton": mici.solvers.solve_projection_onto_manifold_newton, "quasi": mici.solvers.solve_projection_onto_manifold_quasi_newton, "ls": mici.solvers.solve_projection_onto_manifold_newton_with_line_search}
n_cases = 0
for sname, solver in solvers.items():
    for fault_at in range(1, 25):
        system, integrator, count = make(fault_at, solver)
        rng = np.random.default_rng(3)
        trans = mici.transitions.MetropolisStaticIntegrationTransition(system, integrator, n_step=3)
        state = mici.states.ChainState(pos=np.array([1.0, 0.0, 0.0]), mom=None, dir=1)
        try:
            state.mom = system.sample_momentum(state, rng)
        except Exception:
            continue  # fault hit while preparing the state, not inside a trajectory
        count_before = count["n"]
        if fault_at <= count_before:
            continue
        try:
            for _ in range(3):
                state, stats = trans.sample(state, rng)
            n_cases += 1
            if not (np.all(np.isfinite(state.pos)) and np.all(np.isfinite(state.mom))):
                bad.append(f"{sname}, NaN Jacobian at call {fault_at}: chain state not finite")
        except BaseException as e:  # noqa: BLE001
            n_cases += 1
            bad.append(f"{sname}, NaN Jacobian at call {fault_at}: transition raised {type(e).__module__}.{type(e).__name__}: {str(e)[:50]}")
if bad:
    print(f"FAIL ({len(bad)} of {n_cases} cases)"); print("\n".join(bad[:8])); sys.exit(1)
print(f"PASS ({n_cases} cases)")
