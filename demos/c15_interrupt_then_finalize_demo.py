"""C15: an interrupt during an adaptive stage must still let sample_chains return normally.
(a) interrupt within the first two iterations of a slow adaptation window (metric adapter has < 2 samples)
(b) sequential run of 3 chains interrupted in the first chain (fewer final states than generators)"""
import sys, warnings
import numpy as np
import mici
warnings.simplefilter("ignore")

class Interrupter:
    def __init__(self, at): self.at, self.n = at, 0
    def __call__(self, state):
        self.n += 1
        if self.n == self.at: raise KeyboardInterrupt
        return {"pos": state.pos}

def run(n_chain, at, adapters):
    system = mici.systems.EuclideanMetricSystem(neg_log_dens=lambda q: 0.5 * q @ q, grad_neg_log_dens=lambda q: q)
    integrator = mici.integrators.LeapfrogIntegrator(system, step_size=0.3)
    sampler = mici.samplers.StaticMetropolisHMC(system, integrator, np.random.default_rng(1), n_step=2)
    init = [np.ones(2) * (i + 1) for i in range(n_chain)]
    return sampler.sample_chains(20, 5, init, adapters=adapters, trace_funcs=[Interrupter(at)], trace_warm_up=True, display_progress=False)

bad = []
for label, n_chain, at in (("(a) interrupt in the first iteration of the first slow adaptation window, 1 chain", 1, 5), ("(b) sequential run of 3 chains interrupted in the first chain after several slow-window iterations", 3, 12)):
    try:
        out = run(n_chain, at, [mici.adapters.DualAveragingStepSizeAdapter(), mici.adapters.OnlineVarianceMetricAdapter()])
        if len(out.final_states) < 1:
            bad.append(f"{label}: no final state returned")
    except BaseException as e:  # noqa: BLE001
        bad.append(f"{label}: sample_chains raised {type(e).__name__}: {str(e)[:80]}")
if bad:
    print("FAIL"); print("\n".join(bad)); sys.exit(1)
print("PASS")
