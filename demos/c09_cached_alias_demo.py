import numpy as np, mici
from mici.states import ChainState
from mici.systems import EuclideanMetricSystem, GaussianEuclideanMetricSystem

def nld(q): return 0.5*np.sum(q**2)
def gnld(q): return q
bad = 0
for name, system in [("Euclidean/identity", EuclideanMetricSystem(nld, grad_neg_log_dens=gnld)),
                     ("Gaussian/identity", GaussianEuclideanMetricSystem(nld, grad_neg_log_dens=gnld)),
                     ("Euclidean/diag", EuclideanMetricSystem(nld, metric=np.array([2.,3.]), grad_neg_log_dens=gnld))]:
    s = ChainState(pos=np.array([1.0, 2.0]), mom=np.array([0.5, -0.5]), dir=1)
    system.dh2_dmom(s)                # cached
    if hasattr(system, "dh2_dpos"):
        try: system.dh2_dpos(s)
        except Exception: pass
    c = s.copy()
    system.h1_flow(s, 0.3)            # a call on s only
    system.h2_flow(s, 0.3)
    got = system.dh2_dmom(c)
    fresh = system.dh2_dmom(ChainState(pos=c.pos.copy(), mom=c.mom.copy(), dir=1))
    ok = np.allclose(got, fresh)
    print(name, "dh2_dmom(copy) cached:", got, "from scratch:", fresh, "OK" if ok else "STALE")
    bad += not ok
    if isinstance(system, GaussianEuclideanMetricSystem):
        got = system.dh2_dpos(c); fresh = c.pos
        ok = np.allclose(got, fresh); bad += not ok
        print(name, "dh2_dpos(copy) cached:", got, "from scratch:", fresh, "OK" if ok else "STALE")
print("FAIL" if bad else "PASS"); raise SystemExit(1 if bad else 0)
