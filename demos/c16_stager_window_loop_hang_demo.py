import resource, signal, sys
resource.setrlimit(resource.RLIMIT_AS, (2*2**30, 2*2**30))
signal.alarm(10)
import mici
for kw in ({"n_init_slow_window_iter": 0}, {"slow_window_multiplier": 0.5}):
    st = mici.stagers.WindowedWarmUpStager(**kw)
    def handler(*a): raise TimeoutError
    signal.signal(signal.SIGALRM, handler); signal.alarm(5)
    try:
        stages = st.stages(1000, 10, {}, [])
        w = [s.n_iter for s in list(stages.values())[:-1]]
        print(kw, "OK", sum(w), w)
    except (TimeoutError, MemoryError) as e:
        print(kw, "HANG:", type(e).__name__)
    except ValueError as e:
        print(kw, "rejected:", e)
