#!/bin/sh
# usage: tools/tryseed.sh <patch.diff> <PROP> [PROP...]  - run checks on a scratch copy of /repo/src with the patch applied
p=$1; shift
t=$(mktemp -d /tmp/mverif_seed_XXXXXX)
mkdir -p $t; cp -r /repo/src $t/src
( cd $t && patch -s -p1 < "$p" ) || { echo "PATCH-FAILED"; rm -rf $t; exit 3; }
rc=0
for prop in "$@"; do
  MVERIF_REPO=$t MVERIF_OUT=$t/out MVERIF_EVIDENCE=$t/ev /verif/check $prop | grep -v "findings=0 ok"; r=$?
done
rm -rf $t
