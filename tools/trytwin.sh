#!/bin/sh
# usage: tools/trytwin.sh <patch.diff>   - run EVERY claimed check on a scratch copy with the patch applied; print what is not silent
p=$1
t=$(mktemp -d /tmp/mverif_twin_XXXXXX)
cp -r /repo/src $t/src
( cd $t && patch -s -p1 < "$p" ) || { echo "PATCH-FAILED"; rm -rf $t; exit 3; }
for prop in C01 C02 C04 C05 C06 C07 C08 C09 C10 C11 C12 C13 C14 C15 C16 C17 C18 C19 C20; do
  out=$(MVERIF_REPO=$t MVERIF_OUT=$t/out MVERIF_EVIDENCE=$t/ev /verif/check $prop 2>&1); rc=$?
  if [ $rc -ne 0 ]; then echo "== $prop exit=$rc"; echo "$out" | grep -v "^\[C\|note:\|KNOWN-FINDING\|^    " | sed "s#$t#TWIN#g" | cut -c1-320 | head -6; fi
done
rm -rf $t
echo "done"
