#!/venv/bin/python
"""Regenerate /verif/MANIFEST.json from the table below (kept valid at every commit)."""
import json
from pathlib import Path

VERIF = Path(__file__).resolve().parent.parent
BASE = "cd /repo && /venv/bin/python -m pytest -ra -q -p no:cacheprovider --timeout=900 --continue-on-collection-errors"

# id -> (technique, what is decided, residue not decided / trusted base)
T = {
 'C01': ('abstract runs of the Metropolis transitions (accept rule, direction discipline) + typestate + def-use + polynomial normal forms on the transition kernels',
         'structural necessary conditions of detailed balance in transitions.py: direction-flip typestate of the Metropolis step, merge/termination mirror symmetry, orientation of acceptance ratios and progressive-sampling selections, weight functions, fair direction draw, co-updated step/acceptance accumulators, divergence threshold shared through the slice variable; termination criterion evaluated on the merged tree and the same (negative, positive) pair for each direction; slice weight is a summable number; trajectory length independent of the state',
         'invariance itself (a sum over all random outcomes) is not decided; trusted: ast, the accepted idiom tables in DESIGN.md section 7'),
 'C02': ('abstract execution of every _step (palindrome check) + structural reversibility-check rule',
         "input state copied before stepping and never written; direction factor; palindromic (self-adjoint) composition of every concrete integrator's sub-steps; every implicit / projected sub-step covered by a forward-backward check that raises NonReversibleStepError, inside the loop that performs it; the backward solve of a check starts from the copy's current value and nothing changes the stepped state after the round-trip copy",
         "'returns to the start up to tolerance' as a numeric statement is not decided"),
 'C04': ('must-facts dataflow on solver CFGs + linear-form comparison of multiplier/position updates + operator-word algebra for the cotangent projection',
         'projection solvers return only under a convergence test on a fresh residual and otherwise raise ConvergenceError; Lagrange-multiplier bookkeeping consistent between position and momentum corrections; projections paired with every flow in the constrained integrator; cotangent projection annihilates J M^-1; sampled momentum is projected',
         'tolerances being met numerically for every constraint function is not decided'),
 'C05': ("symbolic term comparison of value/derivative methods resolved under each class's MRO + user-function wiring + no in-place update of cached values",
         'h = h1 + h2, dh_dpos = dh1_dpos + dh2_dpos, dh_dmom = dh2_dmom for all concrete systems; term-wise derivative table for every value/derivative pair; branch mirror for dens_wrt_hausdorff; return-convention tables of the autodiff wrappers; h1/h2 equal the documented formulas; every user function is wired to the method of the same meaning; no derivative method updates a state-cached array in place',
         'correctness of user functions and matrix primitives (C10/C11) is assumed'),
 'C06': ('abstract execution of _step with rational time coefficients; list evaluation of the composition coefficient derivation',
         "each Hamiltonian component is advanced by exactly one step size with Hamilton's signs in every integrator; composition coefficients are consistent and palindromic for n = 0..6 (12 thorough) free coefficients; BCSS instances",
         "measured error constants / order beyond 'consistent + symmetric' are not decided"),
 'C07': ("effect sets + linear forms of explicit flows; exact symbolic proof of the harmonic flow (Hamilton's equations by differentiation through sin/cos, sign atoms for |dt|); operator comparison flow vs dh2_flow_dmom",
         "h1_flow writes only mom by -dt*dh1_dpos; Euclidean h2_flow writes only pos by +dt*dh2_dmom; the closed-form harmonic flow satisfies Hamilton's equations of the class's own dh2_* methods for all t and is the identity at t = 0 (per eigen-mode); dh2_flow_dmom blocks equal the flow's momentum coefficients for either sign of dt; no object-level memoisation of metric-derived quantities; no in-place update of cached gradients; no unguarded implicit (None) size",
         'the eigendecomposition contract of the metric (eigvec orthogonal, eigval its spectrum) is assumed'),
 'C08': ('resolved sample_momentum normal forms + polynomial identity of the Crank-Nicolson coefficients + operator-word square-root obligations shared from C10',
         'sample_momentum = metric.sqrt @ standard normal with the same metric object as the kinetic energy; constrained classes project; triangular factor objects used by sqrt and by inv/products are the same array; a^2 + b^2 == 1 for partial refresh; coefficient range guard and branch semantics; S S^T = M for every class whose sqrt a momentum draw can use, pure parity of the sign-carrying low-rank sqrt; stale constructor-time coefficients',
         'agreement with LAPACK numerics is not decided'),
 'C09': ('effect-set vs declared-dependency comparison under the C3 MRO; abstract interpretation of mici/states.py over a finite token domain (scenario runs of the decorators; closure of the ChainState protocol over calls / assignments / copies / pickle round trips against a reference memo); protocol shape checks; may-alias analysis of cached values',
         'every code-visible way a cached value can go stale: missing dependency declarations (56 class x method pairs), aux tables, cache sharing on copy, missed invalidation, pickle table mismatch, in-place mutation behind __setattr__; decorator protocol (key identity, registration, invalidation marker, no cross-call state); pickled dependency table keeps every key the pickled cache keeps; no cached value is (a view of) a state variable array; no in-place update of a value returned by a cached method',
         'user functions assumed pure functions of pos; the protocol closure ranges over two live state objects, two system objects and the token domain (no array values)'),
 'C10': ('operator-word algebra over matrix-class members + sign-parity typing',
         'sibling representations (_left/_right multiply, array, transpose) of each class denote the same operator word; parity of every member under the sign symmetry of the sign-carrying families; inverse/sqrt/scalar-multiply identities inside the rewrite system; block / product classes for n = 2, 3 (4) symbolic components; LU-cache typestate; forwarded capacitance caches; LAPACK solves by contract (lu_solve, cho_solve with a case split on the unseen lower flag); every member must evaluate (fail closed) except the Schur-based low-rank sqrt',
         'agreement with LAPACK numerics, conditioning, eigendecompositions not decided'),
 'C11': ('exact matrix-calculus forms in the operator algebra + sign-parity and homogeneity-degree typing (with diagonal/off-diagonal positional types)',
         'gradients of the array-, factor-, product- and low-rank-parametrised classes equal their matrix-calculus form as operator words (factors, sides, transposes, Woodbury identities through the capacitance lemma, cho_solve convention); parity and homogeneity degree of every gradient incl. the SoftAbs class; block-diagonal gradients delegate per block with the conformal vector part',
         'numeric factors of the diagonal / scalar classes beyond degree, triangular masking, repeated eigenvalues (SoftAbs) not decided'),
 'C12': ('abstract runs of the Metropolis transitions with an integrator error injected at every step + CFG exit discipline + exception-flow analysis over solvers, integrators, transitions',
         'every solver return is under a convergence test on the returned iterate, all other exits raise ConvergenceError, foreign ValueError/LinAlgError are converted, no name used on a raise path can be unbound, raise taxonomy under IntegratorError, guarded step calls, handlers record and contain, NaN guards on energies',
         'finiteness of values as a numeric fact not decided'),
 'C13': ('abstract runs of sample_chains / stagers over labelled tokens (row contents vs the documented semantics; in-memory, memory-mapped, two-process) + Optional-narrowing dataflow, definite-assignment of statistics keys, index linear forms, sibling agreement of storage branches',
         'documented None options are narrowed before arithmetic/comparison; returned statistics keys == declared statistic_types on every path; row index = sample_index + offset; trace written after transitions; offset advances iff stage records; in-memory and memmap branches agree on shape/fill/dtype (boolean equivalence of the execution condition); worker outputs restored to chain order before collation; one memory-map file per array',
         'equality of recorded numbers with states at run time not decided'),
 'C14': ('abstract runs of sample_chains (generator identity and counter continuity per chain across stages / processes, out-of-order worker assignment) + value-flow of generators across the process boundary + ambient-randomness scan + order-restoration rule + must-fact dataflow on adapter start-up',
         'per-chain generators derived injectively from chain index; no legacy/global RNG use; worker outputs re-ordered by chain index; generator state mutated in workers is written back to the parent objects (order typing of every list between results.get() and collation); adapted transition parameters are reset before use in initialize; adapter objects are not written by per-chain methods; nothing draws from the base generator once per chain before the state-relative derivation (known finding F16)',
         'races inside NumPy/OS not decided'),
 'C15': ('abstract runs of sample_chains with a keyboard interrupt injected at every model call and parent wait + handler-chain analysis from the iteration body to the public return',
         "iteration loop inside try with non-reraising KeyboardInterrupt handler and flushing finally; interrupt value reaches the stage loop test on every path; interrupted chain's outputs are still collected; no later stage is started",
         'exact prefix equality as data not decided'),
 'C16': ('abstract runs of sample_chains + stagers (iteration counts, adapter brackets confined to warm-up) + polynomial partition identity over stager code, who-may-write on transition parameters, empty-stage guard',
         'warm-up stage lengths sum to n_warm_up_iter; main stage last/non-adaptive/recording; fast stages get only fast adapters; only constructors/adapters write step_size/metric; a stage with zero iterations is never initialised/finalised; finalisation guarded exactly by non-emptiness and visiting every (transition, adapter) pair',
         'nothing numeric involved beyond integer arithmetic of the stagers'),
 'C17': ('exact symbolic execution of the online updates (rational polynomials) + case analysis of initialize + transition table of the initial search + post-condition rules on finalize',
         'convex-combination shape of every online update, count-weighted pooled mean / Chan merge terms, documented weights, .inv of estimate/(n-1), regularisation weights, momentum refresh after metric change, n<2 guard, reducer use; recursions start at their documented initial values and an explicit regularisation target is honoured for every value; the initial step-size search halves / doubles / returns as a bracketing search must in every (first?, NaN / <= log 2 / > log 2, direction) case',
         'floating-point stability not decided'),
 'C18': ('declared-vs-read comparison (converse direction) + abstract interpretation of mici/states.py over a finite token domain (decorator scenario runs; ChainState protocol closure against a reference memo: no value computed before is evaluated again) + protocol shape checks',
         'no over-broad declaration on methods that evaluate user functions, every user-function call is memoised, aux tables match differential-operator return conventions, cache forwarded on copy, only dependants cleared, wrapped method evaluated only on a miss, position-only flow writes only mom; per-variable dependency sets at every construction site; wrappers keep no state between calls; chain states only created from user input or by copy()',
         'user functions calling each other are out of view'),
 'C19': ('effect analysis of matrices.py + defining-attribute vs eq/hash attribute comparison',
         'no mutation of operands/parameters outside lazy slots; ndarray parameters frozen; _check_equality covers every defining attribute; hash attributes subset of eq attributes; equality / hash never read a lazily filled slot; no class overrides the copy / pickle protocols',
         'bit-identical repeatability of LAPACK calls not decided'),
 'C20': ('float-interval abstract interpretation of utils.py + homomorphism table of LogRepFloat dunders',
         'no log/log1p domain error or inf-inf on the stated input domain, branch thresholds reachable, each operator maps to the right log-space operation and comparison; in-place operators never return an operand; the log-space branch of __sub__ includes equal operands; reflected operators agree with the forward ones',
         "'near machine precision' beyond domain errors / cancellation branches not decided"),
}

NA = {
 "C03": "symplecticity is a property of the Jacobian of a numerical map; the only static handle is a sufficient shape argument (composition of exact flows), which cannot be armed without false alarms on other correct implementations, and the realistic breakages (mis-scaled projection, wrong numeric factor) leave every shape intact",
}

CLAIMED = json.loads((VERIF / "tools" / "claimed.json").read_text())

props = [json.loads(l) for l in (VERIF / "properties.jsonl").read_text().splitlines() if l.strip()]
checks, na = [], []
for p in props:
    pid = p["id"]
    if pid in CLAIMED and pid in T:
        tech, decided, residue = T[pid]
        checks.append({
            "property_id": pid,
            "quick_cmd": f"./check {pid} --tier quick",
            "thorough_cmd": f"./check {pid} --tier thorough",
            "evidence_file": f"/verif/evidence/{pid}.json",
            "replay_cmd_template": f"./check {pid} --replay {{path}}",
            "engine": "mverif",
            "level_claimed": {"category": "other", "text": "Static analysis (no execution of mici): decides " + decided + ". Each armed rule is a necessary condition of the property (a failing rule instance implies a concrete failing input/history); unknown constructs end in ANALYSIS-ERROR (exit 2), never in a silent pass.", "design_ref": f"DESIGN.md section 3 / {pid}"},
            "level_note": "Not decided: " + residue + ". Trusted base: CPython ast, the idiom and semantic tables of DESIGN.md section 7, the C3 linearisation re-implemented in mverif/model.py.",
            "technique": tech,
        })
    else:
        reason = NA.get(pid) or "check not built yet (build in progress); see DESIGN.md"
        na.append({"property_id": pid, "reason": reason})

m = {
 "version": 1,
 "setup_cmd": "true",
 "hooks": {"guard": "MICI_VERIF", "enable": "none - static analysis reads /repo/src/mici as it is; no hooks exist in /repo", "baseline_off_cmd": BASE, "source_commits": [], "add_only": True},
 "engines": [{"name": "mverif", "path": "/verif/mverif", "serves_properties": sorted(c["property_id"] for c in checks), "kind_free_text": "repository-specific static analysis on stdlib ast: resolved program model (C3 MRO), statement CFG + must-facts dataflow, ChainState effect sets, rational polynomial forms, operator-word algebra, parity typing, float intervals"}],
 "checks": checks,
 "notes": "All checks are stdlib-only and run under /venv/bin/python; they read /repo/src/mici on every run (MVERIF_REPO overrides the root for the mutation self-test). Genuine defects found while instantiating the rules were repaired in /repo as 'fix:' commits and are listed as 'fixed' in known_findings.json. selftest/run.py applies the mutation corpus to scratch copies.",
 "not_applicable": na,
}
(VERIF / "MANIFEST.json").write_text(json.dumps(m, indent=1) + "\n")
print("claimed", [c["property_id"] for c in checks], "n/a", [x["property_id"] for x in na])
