#!/bin/sh
# usage: tools/confirm_twin.sh <name> <pytest args...>
# Confirms a behaviour-preserving refactoring produced by a sub-agent (/tmp/refout/<name>): the patch
# applies to /repo HEAD in a scratch worktree and the given tests pass with it. Stores patch + notes
# under /verif/seeded/refactor-<name>/ (meta.json with no expected rule: every check must stay silent).
name=$1; shift
src=${REFOUT:-/tmp/refout}/$name; tag=${TWINTAG:-refactor}
wt=/tmp/seedconf/ref-$name
mkdir -p /tmp/seedconf
git -C /repo worktree add -q --detach $wt HEAD || exit 3
cd $wt
if ! git apply --3way $src/patch.diff 2>/dev/null; then
  if ! patch -s -p1 < $src/patch.diff; then echo "PATCH DOES NOT APPLY"; cd /; git -C /repo worktree remove --force $wt; exit 4; fi
fi
git reset -q
res=$(PYTHONPATH=$wt/src timeout 3000 /venv/bin/python -m pytest -q -p no:cacheprovider -n 8 "$@" 2>&1 | tail -1)
echo "tests: $res"
mkdir -p /verif/seeded/$tag-$name
git diff > /verif/seeded/$tag-$name/patch.diff
cp $src/notes.md /verif/seeded/$tag-$name/notes.md 2>/dev/null
clean=$(echo "$res" | sed 's/\x1b\[[0-9;]*m//g')
cat > /verif/seeded/$tag-$name/meta.json <<EOM
{
 "id": "$tag-$name",
 "source": "independent sub-agent asked for 8-12 strictly behaviour-preserving refactorings of one module (routine clean-up), given only a scratch worktree of /repo",
 "property": null,
 "change": "behaviour-preserving refactorings (see notes.md)",
 "confirmed": "tools/confirm_twin.sh $name $*: $clean",
 "expected": [],
 "detected_by": "nothing: every claimed check must stay silent on this change (cross-silence twin)"
}
EOM
cd /; git -C /repo worktree remove --force $wt
