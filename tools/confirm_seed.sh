#!/bin/sh
# usage: tools/confirm_seed.sh <name> [pytest args...]
# Confirms a seeded change in a scratch worktree of /repo HEAD: demo passes without the patch,
# fails with it, and the given tests still pass with it. Stores patch+demo under /verif/seeded/<name>/.
name=$1; shift
src=/tmp/seedout/$name
wt=/tmp/seedconf/$name
mkdir -p /tmp/seedconf
git -C /repo worktree add -q --detach $wt HEAD || exit 3
cd $wt
echo "== demo on unmodified HEAD"
PYTHONPATH=$wt/src timeout 600 /venv/bin/python $src/demo.py > $wt/demo_before.txt 2>&1; rb=$?
tail -3 $wt/demo_before.txt; echo "exit=$rb"
if ! git apply --3way $src/patch.diff 2>/dev/null; then
  if ! patch -s -p1 < $src/patch.diff; then echo "PATCH DOES NOT APPLY"; git -C /repo worktree remove --force $wt; exit 4; fi
fi
git reset -q
echo "== demo with patch"
PYTHONPATH=$wt/src timeout 600 /venv/bin/python $src/demo.py > $wt/demo_after.txt 2>&1; ra=$?
tail -5 $wt/demo_after.txt; echo "exit=$ra"
rt=0
if [ $# -gt 0 ]; then
  echo "== tests with patch: $@"
  PYTHONPATH=$wt/src timeout 3000 /venv/bin/python -m pytest -q -p no:cacheprovider -n 8 "$@" 2>&1 | tail -2; 
fi
mkdir -p /verif/seeded/$name
git diff > /verif/seeded/$name/patch.diff
cp $src/demo.py /verif/seeded/$name/demo.py
cp $src/notes.md /verif/seeded/$name/notes.md 2>/dev/null
echo "RESULT $name before=$rb after=$ra"
cd /; git -C /repo worktree remove --force $wt
